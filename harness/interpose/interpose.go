// Package interpose decorates repository.Headers: it counts write calls and can
// kill ingestion after the k-th write (panic with a sentinel the harness
// recovers), make the k-th write fail instead of performing it, or hand every
// call to a cooperative scheduler.
package interpose

import (
	"errors"
	"sync"

	"github.com/bitcoin-sv/block-headers-service/domains"
	"github.com/bitcoin-sv/block-headers-service/internal/chaincfg/chainhash"
	"github.com/bitcoin-sv/block-headers-service/repository"
)

// Killed is the panic value used for crash injection.
type Killed struct{ AfterWrite int }

// ErrInjected is returned by a failed write.
var ErrInjected = errors.New("injected storage failure")

// WriteRec describes one write call.
type WriteRec struct {
	Op     string // insert | update
	State  string
	Hashes int
}

// Headers is the decorator.
type Headers struct {
	repository.Headers
	mu        sync.Mutex
	Writes    int
	Log       []WriteRec
	KillAfter int // >0: panic(Killed) right after that write returned
	FailAt    int // >0: that write returns ErrInjected without being performed
	Failed    bool
	// Yield, if set, is called before every repository call (scheduler hook) with the method name.
	Yield func(method string)
}

// Wrap builds the decorator.
func Wrap(inner repository.Headers) *Headers { return &Headers{Headers: inner} }

func (h *Headers) yield(m string) {
	if h.Yield != nil {
		h.Yield(m)
	}
}

func (h *Headers) write(rec WriteRec, do func() error) error {
	h.mu.Lock()
	h.Writes++
	n := h.Writes
	h.Log = append(h.Log, rec)
	fail := h.FailAt > 0 && n == h.FailAt
	if fail {
		h.Failed = true
	}
	h.mu.Unlock()
	if fail {
		return ErrInjected
	}
	err := do()
	if h.KillAfter > 0 && n == h.KillAfter {
		panic(Killed{AfterWrite: n})
	}
	return err
}

// AddHeaderToDatabase is a write.
func (h *Headers) AddHeaderToDatabase(b domains.BlockHeader) error {
	h.yield("AddHeaderToDatabase")
	return h.write(WriteRec{Op: "insert", State: string(b.State), Hashes: 1}, func() error { return h.Headers.AddHeaderToDatabase(b) })
}

// AddMultipleHeadersToDatabase is a write.
func (h *Headers) AddMultipleHeadersToDatabase(bs []domains.BlockHeader) error {
	h.yield("AddMultipleHeadersToDatabase")
	return h.write(WriteRec{Op: "insert", Hashes: len(bs)}, func() error { return h.Headers.AddMultipleHeadersToDatabase(bs) })
}

// UpdateState is a write.
func (h *Headers) UpdateState(hs []chainhash.Hash, s domains.HeaderState) error {
	h.yield("UpdateState")
	return h.write(WriteRec{Op: "update", State: string(s), Hashes: len(hs)}, func() error { return h.Headers.UpdateState(hs, s) })
}

// Reads (yield points only).

func (h *Headers) GetHeaderByHeight(height int32) (*domains.BlockHeader, error) {
	h.yield("GetHeaderByHeight")
	return h.Headers.GetHeaderByHeight(height)
}

func (h *Headers) GetHeaderByHash(hash string) (*domains.BlockHeader, error) {
	h.yield("GetHeaderByHash")
	return h.Headers.GetHeaderByHash(hash)
}

func (h *Headers) GetTip() (*domains.BlockHeader, error) {
	h.yield("GetTip")
	return h.Headers.GetTip()
}

func (h *Headers) GetLongestChainHeadersFromHeight(height int32) ([]*domains.BlockHeader, error) {
	h.yield("GetLongestChainHeadersFromHeight")
	return h.Headers.GetLongestChainHeadersFromHeight(height)
}

func (h *Headers) GetStaleChainHeadersBackFrom(hash string) ([]*domains.BlockHeader, error) {
	h.yield("GetStaleChainHeadersBackFrom")
	return h.Headers.GetStaleChainHeadersBackFrom(hash)
}
