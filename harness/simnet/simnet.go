// Package simnet provides scripted, protocol-conformant Bitcoin nodes on
// loopback TCP that speak internal/wire against the service's real P2P engines,
// and the universe (block tree) their chains are branches of.
package simnet

import (
	"crypto/sha256"
	"encoding/binary"
	"errors"
	"fmt"
	"io"
	"net"
	"sync"
	"time"

	"github.com/bitcoin-sv/block-headers-service/internal/chaincfg"
	"github.com/bitcoin-sv/block-headers-service/internal/chaincfg/chainhash"
	"github.com/bitcoin-sv/block-headers-service/internal/wire"
)

// Net is the network magic the nodes speak.
var Net = wire.MainNet

// Block is one header of the universe with its hash.
type Block struct {
	H      *wire.BlockHeader
	Hash   chainhash.Hash
	Height int32
}

// Universe builds headers deterministically from (branch, height).
type Universe struct {
	Genesis  chainhash.Hash
	BaseTime time.Time
	Step     int64 // seconds between consecutive heights
}

// NewUniverse anchors the universe at the mainnet genesis; timestamps end near now.
func NewUniverse(maxLen int) *Universe {
	// every block of the universe is younger than 24 hours (the service's IsCurrent rule looks at the tip's timestamp:
	// with a tip older than that it ignores announcements of peers other than its sync peer)
	step := int64(30)
	if int64(maxLen+10)*step > 20*3600 {
		step = 20 * 3600 / int64(maxLen+10)
		if step < 1 {
			step = 1
		}
	}
	return &Universe{Genesis: *chaincfg.MainNetParams.GenesisHash, Step: step, BaseTime: time.Unix(time.Now().Unix()-int64(maxLen+10)*step-600, 0)}
}

// Extend appends n blocks to a chain (branch tag b distinguishes competing branches).
func (u *Universe) Extend(chain []*Block, n int, b int, bits uint32) []*Block {
	for i := 0; i < n; i++ {
		prev := u.Genesis
		h := int32(1)
		if len(chain) > 0 {
			prev = chain[len(chain)-1].Hash
			h = chain[len(chain)-1].Height + 1
		}
		var seed [16]byte
		binary.LittleEndian.PutUint64(seed[:], uint64(b))
		binary.LittleEndian.PutUint64(seed[8:], uint64(h))
		mr := sha256.Sum256(seed[:])
		bh := &wire.BlockHeader{Version: 0x20000000, PrevBlock: prev, MerkleRoot: chainhash.Hash(mr), Timestamp: u.BaseTime.Add(time.Duration(int64(h)*u.Step) * time.Second), Bits: bits, Nonce: uint32(b*1000003) + uint32(h)}
		chain = append(chain, &Block{H: bh, Hash: bh.BlockHash(), Height: h})
	}
	return chain
}

// Recv is one message received by a node.
type Recv struct {
	Conn    int
	At      time.Time
	Cmd     string
	Locator []chainhash.Hash
	Stop    chainhash.Hash
}

// NodeSpec scripts a node.
type NodeSpec struct {
	Pver        uint32 `json:"pver"`         // protocol version announced (>= 70012 understands sendheaders)
	Cap         int    `json:"cap"`          // headers per reply (<= 2000)
	CloseAt     int    `json:"closeAt"`      // close every connection when its k-th getheaders arrives (0 = never); before replying
	CloseAfter  bool   `json:"closeAfter"`   // ... after replying instead
	FaultConns  int    `json:"faultConns"`   // the close/stall script applies to the first FaultConns connections only (0 = first 2); later ones are served normally
	StallAt     int    `json:"stallAt"`      // stop answering getheaders from the k-th one (0 = never)
	MaxConns    int    `json:"maxConns"`     // accept at most this many simultaneous connections (0 = unlimited)
	ReplyDelayM int    `json:"replyDelayMs"` // delay before each headers reply
	Services    uint64 `json:"services"`     // 0 = SFNodeNetwork
	// IgnoreStop: replies run up to the cap and do not end at the requested stop hash (a batch may then carry a
	// checkpoint header in its middle)
	IgnoreStop bool `json:"ignoreStop"`
	// AnnounceByHeadersAlways: announce by headers even without sendheaders (non-BIP130 behaviour; separately classed)
	AnnounceByHeadersAlways bool `json:"announceByHeadersAlways"`
	// TruncatedPing: on its first connection the node sends, right after its verack, a well-framed ping (right magic,
	// length 0, right checksum) whose payload lacks the nonce - a message the decoder must reject without harm
	TruncatedPing bool `json:"truncatedPing,omitempty"`
}

// Node is a scripted Bitcoin node.
type Node struct {
	ID   int
	Spec NodeSpec
	ln   net.Listener

	mu           sync.Mutex
	chain        []*Block
	index        map[chainhash.Hash]int32
	conns        []*conn
	recv         []Recv
	lastRecv     time.Time
	refuse       bool // refuse every new connection (RefuseNew)
	scriptCloses int  // connections closed by the CloseAt script
	live         int
	accepted     int
	refused      int
	closedBy     int // connections closed by the remote side (the service)
	done         bool
	// Offending marks header hashes whose delivery is an offence (forbidden / checkpoint-contradicting headers).
	Offending map[chainhash.Hash]bool
	// RedeliveryCounts: a reply that carries an offending header which this node has delivered before (on any connection)
	// marks the connection as offended, too. Default false: only the first delivery of an offending header is an offence
	// the service is expected to act upon (it skips headers it already has - see the open finding of C07).
	RedeliveryCounts bool
	// HangUpAfterOffence: right after writing a reply that carries an offending header the node closes all its
	// connections (the service meets the offending header when its sender is gone already); it keeps accepting new ones
	// and behaves like an ordinary node whose chain ends below the offending header.
	HangUpAfterOffence bool
	offDelivered       map[chainhash.Hash]bool
	redeliveries     int
	// Insert, if set, may replace the headers of a reply (fault injection: forbidden / contradicting headers).
	Insert func(reply []*wire.BlockHeader, connID int, nthGetHeaders int) ([]*wire.BlockHeader, bool)
}

type conn struct {
	id          int
	c           net.Conn
	wmu         sync.Mutex
	sendHeaders bool
	getHeaders  int
	known       int32 // highest height the peer is known to have from this node
	stalled     bool
	closed      bool
	handshaken  bool
	sentVersion bool
	afterOffend int // getheaders received after an offending reply was sent
	offended    bool
	hungUp      bool
	offendedAt  time.Time
	shakenAt    time.Time // handshake completed
	closedAt    time.Time
}

// NewNode starts a node holding chain.
func NewNode(id int, spec NodeSpec, genesis chainhash.Hash, chain []*Block) (*Node, error) {
	ln, err := net.Listen("tcp", "127.0.0.1:0")
	if err != nil {
		return nil, err
	}
	if spec.Pver == 0 {
		spec.Pver = 70015
	}
	if spec.Cap <= 0 || spec.Cap > 2000 {
		spec.Cap = 2000
	}
	n := &Node{ID: id, Spec: spec, ln: ln, index: map[chainhash.Hash]int32{genesis: 0}, lastRecv: time.Now()}
	n.setChain(chain)
	go n.acceptLoop()
	return n, nil
}

func (n *Node) setChain(chain []*Block) {
	n.chain = append([]*Block{}, chain...)
	for _, b := range chain {
		n.index[b.Hash] = b.Height
	}
}

// Addr is the loopback address of the node.
func (n *Node) Addr() string { return n.ln.Addr().String() }

// Height of the node's best chain.
func (n *Node) Height() int32 {
	n.mu.Lock()
	defer n.mu.Unlock()
	return int32(len(n.chain))
}

// Tip of the node's best chain (nil = genesis only).
func (n *Node) Tip() *Block {
	n.mu.Lock()
	defer n.mu.Unlock()
	if len(n.chain) == 0 {
		return nil
	}
	return n.chain[len(n.chain)-1]
}

// Chain returns a copy of the best chain.
func (n *Node) Chain() []*Block {
	n.mu.Lock()
	defer n.mu.Unlock()
	return append([]*Block{}, n.chain...)
}

func (n *Node) acceptLoop() {
	for {
		c, err := n.ln.Accept()
		if err != nil {
			return
		}
		n.mu.Lock()
		if n.done || n.refuse || (n.Spec.MaxConns > 0 && n.live >= n.Spec.MaxConns) {
			n.refused++
			n.mu.Unlock()
			_ = c.Close()
			continue
		}
		n.live++
		n.accepted++
		cn := &conn{id: len(n.conns), c: c}
		n.conns = append(n.conns, cn)
		n.mu.Unlock()
		go n.serve(cn)
	}
}

// Dial makes the node connect out (inbound peer from the service's point of view).
func (n *Node) Dial(addr string) error {
	c, err := net.Dial("tcp", addr)
	if err != nil {
		return err
	}
	n.mu.Lock()
	n.live++
	n.accepted++
	cn := &conn{id: len(n.conns), c: c}
	n.conns = append(n.conns, cn)
	n.mu.Unlock()
	go n.serve(cn)
	return nil
}

func (n *Node) write(cn *conn, m wire.Message) error {
	cn.wmu.Lock()
	defer cn.wmu.Unlock()
	_ = cn.c.SetWriteDeadline(time.Now().Add(10 * time.Second))
	return wire.WriteMessage(cn.c, m, n.Spec.Pver, Net)
}

func (n *Node) closeConn(cn *conn, byRemote bool) {
	n.mu.Lock()
	if !cn.closed {
		cn.closed = true
		cn.closedAt = time.Now()
		n.live--
		if byRemote {
			n.closedBy++
		}
	}
	n.mu.Unlock()
	_ = cn.c.Close()
}

func (n *Node) serve(cn *conn) {
	pver := n.Spec.Pver
	for {
		msg, _, err := wire.ReadMessage(cn.c, pver, Net)
		if err != nil {
			var ne net.Error
			if errors.Is(err, io.EOF) || errors.Is(err, io.ErrUnexpectedEOF) || errors.Is(err, net.ErrClosed) || errors.As(err, &ne) {
				n.mu.Lock()
				already := cn.closed
				n.mu.Unlock()
				n.closeConn(cn, !already)
				return
			}
			continue // unknown or malformed message: frame already consumed
		}
		rec := Recv{Conn: cn.id, At: time.Now(), Cmd: msg.Command()}
		switch m := msg.(type) {
		case *wire.MsgVersion:
			n.log(rec)
			if !cn.sentVersion {
				if err := n.sendVersion(cn); err != nil {
					n.closeConn(cn, false)
					return
				}
			}
			_ = n.write(cn, wire.NewMsgVerAck())
			_ = m
			if n.Spec.TruncatedPing && cn.id == 0 {
				frame := make([]byte, 24)
				binary.LittleEndian.PutUint32(frame[0:4], uint32(Net))
				copy(frame[4:16], "ping")
				copy(frame[20:24], []byte{0x5d, 0xf6, 0xe0, 0xe2}) // double SHA-256 of the empty payload
				cn.wmu.Lock()
				_, _ = cn.c.Write(frame)
				cn.wmu.Unlock()
			}
		case *wire.MsgVerAck:
			n.log(rec)
			n.mu.Lock()
			cn.handshaken = true
			cn.shakenAt = time.Now()
			n.mu.Unlock()
		case *wire.MsgPing:
			n.log(rec)
			if n.Spec.Pver > wire.BIP0031Version {
				_ = n.write(cn, wire.NewMsgPong(m.Nonce))
			}
		case *wire.MsgSendHeaders:
			n.log(rec)
			n.mu.Lock()
			cn.sendHeaders = true
			n.mu.Unlock()
		case *wire.MsgGetHeaders:
			for _, h := range m.BlockLocatorHashes {
				rec.Locator = append(rec.Locator, *h)
			}
			rec.Stop = m.HashStop
			n.log(rec)
			if !n.onGetHeaders(cn, m) {
				return
			}
		default:
			n.log(rec)
		}
	}
}

func (n *Node) sendVersion(cn *conn) error {
	n.mu.Lock()
	services := wire.ServiceFlag(n.Spec.Services)
	n.mu.Unlock()
	if services == 0 {
		services = wire.SFNodeNetwork
	}
	me := wire.NewNetAddressIPPort(net.IPv4(127, 0, 0, 1), 0, services)
	v := wire.NewMsgVersion(me, me, uint64(time.Now().UnixNano())^uint64(n.ID)<<48|uint64(cn.id), n.Height())
	v.ProtocolVersion = int32(n.Spec.Pver)
	v.Services = services
	v.UserAgent = "/simnet:1.0/"
	cn.sentVersion = true
	return n.write(cn, v)
}

// ServeConn lets the node speak on a connection created elsewhere; with versionFirst the node opens the
// handshake (it is the connecting side of an inbound peer of the legacy engine).
func (n *Node) ServeConn(c net.Conn, versionFirst bool) {
	n.mu.Lock()
	n.live++
	n.accepted++
	cn := &conn{id: len(n.conns), c: c}
	n.conns = append(n.conns, cn)
	n.mu.Unlock()
	if versionFirst {
		_ = n.sendVersion(cn)
	}
	go n.serve(cn)
}

func (n *Node) log(r Recv) {
	n.mu.Lock()
	n.recv = append(n.recv, r)
	n.lastRecv = r.At
	n.mu.Unlock()
}

func (n *Node) onGetHeaders(cn *conn, m *wire.MsgGetHeaders) bool {
	n.mu.Lock()
	cn.getHeaders++
	k := cn.getHeaders
	if cn.offended && time.Since(cn.offendedAt) > 100*time.Millisecond {
		// requests that were already on their way when the offending reply was sent do not count
		cn.afterOffend++
	}
	spec := n.Spec
	fc := spec.FaultConns
	if fc <= 0 {
		fc = 2
	}
	if cn.id >= fc {
		spec.CloseAt, spec.StallAt = 0, 0
	}
	start := int32(0)
	for _, h := range m.BlockLocatorHashes {
		if ht, ok := n.index[*h]; ok {
			start = ht
			break
		}
	}
	if start > cn.known {
		cn.known = start
	}
	end := int(start) + spec.Cap
	if end > len(n.chain) {
		end = len(n.chain)
	}
	var reply []*wire.BlockHeader
	for h := int(start); h < end; h++ { // chain[h] has height h+1
		reply = append(reply, n.chain[h].H)
		if n.chain[h].Hash == m.HashStop && !spec.IgnoreStop {
			break
		}
	}
	insert := n.Insert
	stalled := spec.StallAt > 0 && k >= spec.StallAt
	if !stalled && len(n.Offending) > 0 {
		for _, h := range reply {
			if hh := h.BlockHash(); n.Offending[hh] && !cn.offended {
				if n.offDelivered == nil {
					n.offDelivered = map[chainhash.Hash]bool{}
				}
				if n.offDelivered[hh] && !n.RedeliveryCounts {
					n.redeliveries++
					continue
				}
				n.offDelivered[hh] = true
				cn.offended = true
				cn.offendedAt = time.Now()
			}
		}
	}
	n.mu.Unlock()
	if spec.CloseAt > 0 && k == spec.CloseAt && !spec.CloseAfter {
		n.mu.Lock()
		n.scriptCloses++
		n.mu.Unlock()
		n.closeConn(cn, false)
		return false
	}
	if stalled {
		return true
	}
	if insert != nil {
		var offending bool
		reply, offending = insert(reply, cn.id, k)
		if offending {
			n.mu.Lock()
			if !cn.offended {
				cn.offended = true
				cn.offendedAt = time.Now()
			}
			n.mu.Unlock()
		}
	}
	if spec.ReplyDelayM > 0 {
		time.Sleep(time.Duration(spec.ReplyDelayM) * time.Millisecond)
	}
	mh := &wire.MsgHeaders{Headers: reply}
	if err := n.write(cn, mh); err != nil {
		n.closeConn(cn, false)
		return false
	}
	n.mu.Lock()
	hangUp := n.HangUpAfterOffence && cn.offended && !cn.hungUp
	cn.hungUp = cn.hungUp || hangUp
	n.mu.Unlock()
	if hangUp {
		// from now on the node is an ordinary one: its chain ends below the first offending header
		n.mu.Lock()
		for i, b := range n.chain {
			if n.Offending[b.Hash] {
				n.chain = n.chain[:i]
				break
			}
		}
		n.mu.Unlock()
		n.DropAll()
		return false
	}
	n.mu.Lock()
	if len(reply) > 0 {
		if top := start + int32(len(reply)); top > cn.known {
			cn.known = top
		}
	}
	n.mu.Unlock()
	if spec.CloseAt > 0 && k == spec.CloseAt && spec.CloseAfter {
		n.mu.Lock()
		n.scriptCloses++
		n.mu.Unlock()
		n.closeConn(cn, false)
		return false
	}
	return true
}

// MarkOffended lets an Insert hook record that the reply on this connection was offending.
func (n *Node) MarkOffended(connID int) {
	n.mu.Lock()
	defer n.mu.Unlock()
	if connID < len(n.conns) {
		n.conns[connID].offended = true
	}
}

// RequestsAfterOffence counts getheaders received on connections after an offending reply.
func (n *Node) RequestsAfterOffence() int {
	n.mu.Lock()
	defer n.mu.Unlock()
	t := 0
	for _, c := range n.conns {
		t += c.afterOffend
	}
	return t
}

// FirstOffenceAt is the time of the first offending reply (zero if none).
func (n *Node) FirstOffenceAt() time.Time {
	n.mu.Lock()
	defer n.mu.Unlock()
	var t time.Time
	for _, c := range n.conns {
		if c.offended && (t.IsZero() || c.offendedAt.Before(t)) {
			t = c.offendedAt
		}
	}
	return t
}

// AdmittedBetween counts the connections whose handshake completed in [from, to] and that were treated as admitted
// peers by the service: they received a getheaders, or stayed open for at least minLife. attempts is the number of
// handshakes completed in the interval.
func (n *Node) AdmittedBetween(from, to time.Time, minLife time.Duration) (admitted, attempts int) {
	a, b, c := n.AdmittedDetail(from, to, minLife)
	return a + b, c
}

// AdmittedDetail is AdmittedBetween with the two criteria counted separately.
func (n *Node) AdmittedDetail(from, to time.Time, minLife time.Duration) (asked, longLived, attempts int) {
	n.mu.Lock()
	defer n.mu.Unlock()
	now := time.Now()
	for _, c := range n.conns {
		if !c.handshaken || c.shakenAt.Before(from) || c.shakenAt.After(to) {
			continue
		}
		attempts++
		end := now
		if c.closed {
			end = c.closedAt
		}
		if c.getHeaders > 0 {
			asked++
		} else if end.Sub(c.shakenAt) >= minLife {
			longLived++
		}
	}
	return asked, longLived, attempts
}

func (n *Node) admittedBetweenOld(from, to time.Time, minLife time.Duration) (admitted, attempts int) {
	n.mu.Lock()
	defer n.mu.Unlock()
	now := time.Now()
	for _, c := range n.conns {
		if !c.handshaken || c.shakenAt.Before(from) || c.shakenAt.After(to) {
			continue
		}
		attempts++
		end := now
		if c.closed {
			end = c.closedAt
		}
		if c.getHeaders > 0 || end.Sub(c.shakenAt) >= minLife {
			admitted++
		}
	}
	return admitted, attempts
}

// RefuseNew makes the node refuse every further connection attempt (it has gone away for good).
func (n *Node) RefuseNew() {
	n.mu.Lock()
	n.refuse = true
	n.mu.Unlock()
}

// Redeliveries counts replies that carried an offending header this node had delivered before.
func (n *Node) Redeliveries() int {
	n.mu.Lock()
	defer n.mu.Unlock()
	return n.redeliveries
}

// EverOffended reports whether an offending reply was sent on any connection.
func (n *Node) EverOffended() bool {
	n.mu.Lock()
	defer n.mu.Unlock()
	for _, c := range n.conns {
		if c.offended {
			return true
		}
	}
	return false
}

// OffendedConnsOpen counts connections that got an offending reply and are still open.
func (n *Node) OffendedConnsOpen() int {
	n.mu.Lock()
	defer n.mu.Unlock()
	t := 0
	for _, c := range n.conns {
		if c.offended && !c.closed {
			t++
		}
	}
	return t
}

// Mine appends blocks to the node's chain and announces them on every live connection:
// by headers where sendheaders was received (BIP 130), else by inv.
func (n *Node) Mine(blocks []*Block, announce bool) {
	n.mu.Lock()
	for _, b := range blocks {
		n.chain = append(n.chain, b)
		n.index[b.Hash] = b.Height
	}
	var live []*conn
	for _, c := range n.conns {
		if !c.closed && c.handshaken {
			live = append(live, c)
		}
	}
	chain := append([]*Block{}, n.chain...)
	always := n.Spec.AnnounceByHeadersAlways
	n.mu.Unlock()
	if !announce {
		return
	}
	for _, c := range live {
		n.mu.Lock()
		sh, known := c.sendHeaders, c.known
		n.mu.Unlock()
		if sh || always {
			// all blocks the peer is not known to have
			from := int(known)
			first := int(blocks[0].Height) - 1
			if from > first {
				from = first
			}
			var hs []*wire.BlockHeader
			for h := from; h < len(chain) && len(hs) < 2000; h++ {
				hs = append(hs, chain[h].H)
			}
			_ = n.write(c, &wire.MsgHeaders{Headers: hs})
			n.mu.Lock()
			if int32(len(chain)) > c.known {
				c.known = int32(len(chain))
			}
			n.mu.Unlock()
		} else {
			inv := wire.NewMsgInv()
			for _, b := range blocks {
				h := b.Hash
				_ = inv.AddInvVect(wire.NewInvVect(wire.InvTypeBlock, &h))
			}
			_ = n.write(c, inv)
		}
	}
	// an announcement counts as activity: quiescence is not detected before the service had time to react to it
	n.mu.Lock()
	n.lastRecv = time.Now()
	n.mu.Unlock()
}

// Reorg replaces the last drop blocks of the node's chain by blocks (a competing branch the node now prefers) and
// announces the new tip like Mine does.
func (n *Node) Reorg(drop int, blocks []*Block, announce bool) {
	n.mu.Lock()
	if drop > len(n.chain) {
		drop = len(n.chain)
	}
	for _, b := range n.chain[len(n.chain)-drop:] {
		delete(n.index, b.Hash)
	}
	n.chain = n.chain[:len(n.chain)-drop]
	// what a connection is known to have cannot exceed the common part any more
	for _, c := range n.conns {
		if c.known > int32(len(n.chain)) {
			c.known = int32(len(n.chain))
		}
	}
	n.mu.Unlock()
	n.Mine(blocks, announce)
}

// Ready reports whether at least one connection has completed the handshake and is still open.
func (n *Node) Ready() bool {
	n.mu.Lock()
	defer n.mu.Unlock()
	for _, c := range n.conns {
		if c.handshaken && !c.closed {
			return true
		}
	}
	return false
}

// MineWhenReady waits (bounded) for a handshaken connection before mining and announcing.
func (n *Node) MineWhenReady(blocks []*Block, announce bool, maxWait time.Duration) {
	for d := time.Now().Add(maxWait); !n.Ready() && time.Now().Before(d); {
		time.Sleep(2 * time.Millisecond)
	}
	n.Mine(blocks, announce)
}

// SetServices changes the service bits announced in later handshakes.
func (n *Node) SetServices(sv uint64) {
	n.mu.Lock()
	n.Spec.Services = sv
	n.mu.Unlock()
}

// DropAll closes every open connection (the service will reconnect).
func (n *Node) DropAll() {
	n.mu.Lock()
	conns := append([]*conn{}, n.conns...)
	n.mu.Unlock()
	for _, c := range conns {
		n.closeConn(c, false)
	}
}

// Stats of the node.
type Stats struct {
	Accepted, Refused, Live, ClosedByRemote int
	GetHeaders                              int
	LastRecv                                time.Time
	ScriptCloses                            int
}

// Stat returns counters.
func (n *Node) Stat() Stats {
	n.mu.Lock()
	defer n.mu.Unlock()
	g := 0
	for _, r := range n.recv {
		if r.Cmd == wire.CmdGetHeaders {
			g++
		}
	}
	return Stats{Accepted: n.accepted, Refused: n.refused, Live: n.live, ClosedByRemote: n.closedBy, GetHeaders: g, LastRecv: n.lastRecv, ScriptCloses: n.scriptCloses}
}

// Received returns a copy of the receive log.
func (n *Node) Received() []Recv {
	n.mu.Lock()
	defer n.mu.Unlock()
	return append([]Recv{}, n.recv...)
}

// Close stops the node.
func (n *Node) Close() {
	n.mu.Lock()
	n.done = true
	conns := append([]*conn{}, n.conns...)
	n.mu.Unlock()
	_ = n.ln.Close()
	for _, c := range conns {
		n.closeConn(c, false)
	}
}

// FakeIP returns the routable fake address of node i (distinct /16 per node).
func FakeIP(i int) net.IP { return net.IPv4(byte(11+i%200), byte(1+i/200), 1, 1) }

var _ = fmt.Sprint
