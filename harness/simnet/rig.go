package simnet

import (
	"fmt"
	"net"
	"strings"
	"sync"
	"time"

	"github.com/bitcoin-sv/block-headers-service/config"
	"github.com/bitcoin-sv/block-headers-service/internal/chaincfg"
	exppeer "github.com/bitcoin-sv/block-headers-service/internal/transports/p2p/peer"
	"github.com/bitcoin-sv/block-headers-service/transports/p2p"
	peerpkg "github.com/bitcoin-sv/block-headers-service/transports/p2p/peer"
	"github.com/bitcoin-sv/block-headers-service/verifharness/stack"
)

// Env holds the global redirections of one scenario (one scenario at a time per process).
type Env struct {
	mu       sync.Mutex
	nodes    map[string]*Node // fake ip -> node
	saved    func()
	Dials    int
	DialErrs int
	// RefuseDelay throttles refused dials.
	RefuseDelay time.Duration
}

const seedHost = "seed.verif.invalid"

// Install redirects DNS seeding and dialling to the scripted nodes and installs the checkpoint list.
// It must be called before the stack is built (the header service captures config.Checkpoints).
func Install(nodes []*Node, checkpoints []chaincfg.Checkpoint) *Env {
	stack.ProcessInit()
	e := &Env{nodes: map[string]*Node{}, RefuseDelay: 20 * time.Millisecond}
	for _, n := range nodes {
		e.nodes[FakeIP(n.ID).String()] = n
	}
	p := &chaincfg.MainNetParams
	sPort, sSeeds, sCP := p.DefaultPort, p.DNSSeeds, p.Checkpoints
	sLookup, sDial, sCfgCP := config.Lookup, config.Dial, config.Checkpoints
	e.saved = func() {
		p.DefaultPort, p.DNSSeeds, p.Checkpoints = sPort, sSeeds, sCP
		config.Lookup, config.Dial, config.Checkpoints = sLookup, sDial, sCfgCP
	}
	p.DefaultPort = "0"
	p.DNSSeeds = []chaincfg.DNSSeed{{Host: seedHost, HasFiltering: false}}
	p.Checkpoints = checkpoints
	config.Checkpoints = checkpoints
	config.Lookup = func(host string) ([]net.IP, error) {
		if host != seedHost {
			return nil, fmt.Errorf("no such host %s", host)
		}
		var ips []net.IP
		for _, n := range nodes {
			ips = append(ips, FakeIP(n.ID))
		}
		return ips, nil
	}
	config.Dial = func(network, addr string, timeout time.Duration) (net.Conn, error) {
		host, _, err := net.SplitHostPort(addr)
		if err != nil {
			return nil, err
		}
		e.mu.Lock()
		n := e.nodes[host]
		e.Dials++
		e.mu.Unlock()
		if n == nil {
			return nil, fmt.Errorf("dial %s: no route to host", addr)
		}
		n.mu.Lock()
		full := n.done || (n.Spec.MaxConns > 0 && n.live >= n.Spec.MaxConns)
		n.mu.Unlock()
		if full {
			time.Sleep(e.RefuseDelay)
			e.mu.Lock()
			e.DialErrs++
			e.mu.Unlock()
			return nil, fmt.Errorf("dial %s: connection refused", addr)
		}
		c, err := net.DialTimeout("tcp", n.Addr(), timeout)
		if err != nil {
			return nil, err
		}
		return &fakeConn{Conn: c, remote: &net.TCPAddr{IP: net.ParseIP(host), Port: 0}}, nil
	}
	return e
}

// Restore undoes Install.
func (e *Env) Restore() {
	if e.saved != nil {
		e.saved()
		e.saved = nil
	}
}

// fakeConn reports the fake routable address as remote address.
type fakeConn struct {
	net.Conn
	remote net.Addr
}

func (f *fakeConn) RemoteAddr() net.Addr { return f.remote }

// P2PServer is what both engines expose.
type P2PServer interface {
	Start() error
	Shutdown() error
}

// StartLegacy builds the stack (with the shared peers map) and starts the legacy P2P server.
func StartLegacy(opts stack.Options, disableCheckpoints bool, banDuration time.Duration) (*stack.Stack, P2PServer, error) {
	peers := make(map[*peerpkg.Peer]*peerpkg.SyncState)
	opts.Peers = peers
	prev := opts.Cfg
	opts.Cfg = func(c *config.AppConfig) {
		c.P2P.DisableCheckpoints = disableCheckpoints
		if banDuration > 0 {
			c.P2P.BanDuration = banDuration
		}
		c.P2P.DefaultConnectTimeout = 5 * time.Second
		if prev != nil {
			prev(c)
		}
	}
	s, err := stack.New(opts)
	if err != nil {
		return nil, nil, err
	}
	srv, err := p2p.NewServer(s.Services, peers, s.Cfg.P2P, s.Log)
	if err != nil {
		s.Close()
		return nil, nil, err
	}
	if err := srv.Start(); err != nil {
		s.Close()
		return nil, nil, err
	}
	return s, srv, nil
}

// ExpPeer connects the experimental engine's peer to a node the way p2pexp.server.connectPeer does.
func ExpPeer(s *stack.Stack, n *Node, inboundListener net.Listener) (*exppeer.Peer, error) {
	var c net.Conn
	var err error
	inbound := inboundListener != nil
	if inbound {
		if err = n.Dial(inboundListener.Addr().String()); err != nil {
			return nil, err
		}
		c, err = inboundListener.Accept()
	} else {
		c, err = net.DialTimeout("tcp", n.Addr(), 5*time.Second)
	}
	if err != nil {
		return nil, err
	}
	p, err := exppeer.NewPeer(c, inbound, s.Cfg.P2P, s.Cfg.P2P.GetNetParams(), s.Services.Headers, s.Services.Chains, s.Log)
	if err != nil {
		return nil, err
	}
	if err := p.Connect(); err != nil {
		return nil, err
	}
	if err := p.StartHeadersSync(); err != nil {
		return nil, err
	}
	peerNodeMu.Lock()
	peerNode[p] = n
	peerNodeMu.Unlock()
	return p, nil
}

var (
	peerNodeMu sync.Mutex
	peerNode   = map[*exppeer.Peer]*Node{}
)

// SafeDisconnect calls Disconnect once, guarding against the engine's non-idempotent close.
func SafeDisconnect(p *exppeer.Peer) {
	if p == nil {
		return
	}
	// The experimental peer's Disconnect is not idempotent (open finding of C15): if the harness and the engine both call
	// it, the second close panics - in the engine's own goroutine when the engine comes second, which would kill the test
	// process. So the node side is closed first (no further message can make the engine disconnect by itself) and
	// handlers already running get time to finish; a panic of the harness's own call (the engine was first) is recovered.
	peerNodeMu.Lock()
	n := peerNode[p]
	delete(peerNode, p)
	peerNodeMu.Unlock()
	if n != nil {
		n.DropAll()
		time.Sleep(150 * time.Millisecond)
	}
	done := make(chan struct{})
	go func() {
		defer func() { _ = recover(); close(done) }()
		p.Disconnect()
	}()
	select {
	case <-done:
	case <-time.After(2 * time.Second):
	}
}

// WaitQuiescent waits until cond() holds and no node has received a message for quiet; bounded by max.
func WaitQuiescent(nodes []*Node, cond func() bool, quiet, max time.Duration) bool {
	deadline := time.Now().Add(max)
	for time.Now().Before(deadline) {
		if cond() {
			idle := true
			for _, n := range nodes {
				if time.Since(n.Stat().LastRecv) < quiet {
					idle = false
				}
			}
			if idle {
				return true
			}
		}
		time.Sleep(5 * time.Millisecond)
	}
	return cond()
}

var _ = strings.Contains
