// Package stats collects what a check process actually covered and writes a
// fragment file that the driver merges into /verif/evidence/<id>.json.
package stats

import (
	"encoding/json"
	"fmt"
	"hash/fnv"
	"os"
	"path/filepath"
	"sort"
	"strconv"
	"sync"
)

// Violation is one failing case.
type Violation struct {
	Property string `json:"property"`
	Replay   string `json:"replay"`
	Message  string `json:"message"`
	Known    string `json:"known,omitempty"` // id of the known finding it matches, if any
}

// Fragment is the per-process output.
type Fragment struct {
	Property    string   `json:"property"`
	Test        string   `json:"test"`
	Shard       int      `json:"shard"`
	Evaluations int      `json:"evaluations"`
	Nontrivial  []string `json:"nontrivial"` // distinct signature hashes of non-trivial cases
	// NontrivialEnum counts non-trivial cases of complete enumerations, which are distinct by construction
	// (each value of the enumerated domain is visited once; shards partition the domain).
	NontrivialEnum int64            `json:"nontrivial_enum"`
	Classes        map[string]int64 `json:"classes"`
	Samples        []any            `json:"samples"`
	Violations     []Violation      `json:"violations"`
	Excluded       map[string]int64 `json:"excluded"` // cases steered away from known findings
	Known          []string         `json:"known"`    // KNOWN-FINDING lines to print
	Exhaustive     bool             `json:"exhaustive"`
	Notes          []string         `json:"notes"`
}

var (
	mu   sync.Mutex
	frag = Fragment{Classes: map[string]int64{}, Excluded: map[string]int64{}}
	nt   = map[uint64]bool{}
	// MaxSamples bounds the number of sample cases kept.
	MaxSamples = 4
)

// Sig hashes a case signature to 64 bits.
func Sig(parts ...any) uint64 {
	h := fnv.New64a()
	for _, p := range parts {
		fmt.Fprintf(h, "%v\x00", p)
	}
	return h.Sum64()
}

// Case describes one evaluated case.
type Case struct {
	Sig        uint64
	Nontrivial bool
	Classes    map[string]int64 // counters added to the histogram
	Sample     any              // candidate sample (kept for the first few non-trivial cases)
}

// Setup names the property/test of this process.
func Setup(property, test string) {
	mu.Lock()
	defer mu.Unlock()
	frag.Property, frag.Test = property, test
	frag.Shard = Shard()
}

// Record adds a completed case.
func Record(c *Case) {
	if c == nil {
		return
	}
	mu.Lock()
	defer mu.Unlock()
	frag.Evaluations++
	for k, v := range c.Classes {
		frag.Classes[k] += v
	}
	if c.Nontrivial {
		if !nt[c.Sig] {
			nt[c.Sig] = true
			if c.Sample != nil && len(frag.Samples) < MaxSamples {
				frag.Samples = append(frag.Samples, c.Sample)
			}
		}
	}
}

// CountEnum adds cases of an enumeration (distinct by construction).
func CountEnum(evaluations, nontrivial int64) {
	mu.Lock()
	defer mu.Unlock()
	frag.Evaluations += int(evaluations)
	frag.NontrivialEnum += nontrivial
}

// AddSample appends a sample if there is room.
func AddSample(s any) {
	mu.Lock()
	defer mu.Unlock()
	if len(frag.Samples) < MaxSamples {
		frag.Samples = append(frag.Samples, s)
	}
}

// Count bumps a class counter outside of a case.
func Count(class string, n int64) {
	mu.Lock()
	defer mu.Unlock()
	frag.Classes[class] += n
}

// Exclude counts a case steered away from a known finding.
func Exclude(id string) {
	mu.Lock()
	defer mu.Unlock()
	frag.Excluded[id]++
}

// AddViolation registers a violation (the replay path is final).
func AddViolation(v Violation) {
	mu.Lock()
	defer mu.Unlock()
	for i, o := range frag.Violations {
		if o.Replay == v.Replay {
			frag.Violations[i] = v
			return
		}
	}
	frag.Violations = append(frag.Violations, v)
}

// AddKnown registers a KNOWN-FINDING line.
func AddKnown(line string) {
	mu.Lock()
	defer mu.Unlock()
	for _, k := range frag.Known {
		if k == line {
			return
		}
	}
	frag.Known = append(frag.Known, line)
}

// Note attaches a free-text note.
func Note(s string) {
	mu.Lock()
	defer mu.Unlock()
	frag.Notes = append(frag.Notes, s)
}

// SetExhaustive marks the fragment as a complete enumeration.
func SetExhaustive() {
	mu.Lock()
	defer mu.Unlock()
	frag.Exhaustive = true
}

// Flush writes the fragment to VERIF_FRAG (if set).
func Flush() {
	mu.Lock()
	defer mu.Unlock()
	p := os.Getenv("VERIF_FRAG")
	if p == "" {
		return
	}
	frag.Nontrivial = frag.Nontrivial[:0]
	for k := range nt {
		frag.Nontrivial = append(frag.Nontrivial, strconv.FormatUint(k, 16))
	}
	sort.Strings(frag.Nontrivial)
	b, err := json.Marshal(frag)
	if err != nil {
		fmt.Fprintln(os.Stderr, "stats: marshal:", err)
		return
	}
	_ = os.MkdirAll(filepath.Dir(p), 0o755)
	tmp := p + ".tmp"
	if err := os.WriteFile(tmp, b, 0o644); err == nil {
		_ = os.Rename(tmp, p)
	}
}

// Tier returns quick or thorough.
func Tier() string {
	if os.Getenv("VERIF_TIER") == "thorough" {
		return "thorough"
	}
	return "quick"
}

// Thorough reports whether the thorough tier is running.
func Thorough() bool { return Tier() == "thorough" }

// Shard index and count.
func Shard() int {
	n, _ := strconv.Atoi(os.Getenv("VERIF_SHARD"))
	return n
}

// NShards is the number of shards of this job.
func NShards() int {
	n, _ := strconv.Atoi(os.Getenv("VERIF_NSHARDS"))
	if n < 1 {
		n = 1
	}
	return n
}

// EnvInt reads an integer knob.
func EnvInt(name string, def int) int {
	if v, err := strconv.Atoi(os.Getenv(name)); err == nil {
		return v
	}
	return def
}
