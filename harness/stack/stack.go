// Package stack builds the production object graph of block-headers-service
// (cmd/main.go minus signal handling and the P2P engine) on a scratch SQLite
// file: database.Init on the migrations of the tree under test, database/sql,
// database/repository, service.NewServices, the gin engine produced by
// endpoints.SetupRoutes and the websocket server.
package stack

import (
	"bytes"
	"fmt"
	"io"
	"net/http"
	"net/http/httptest"
	"os"
	"path/filepath"
	"sort"
	"strconv"
	"strings"
	"sync"
	"time"

	"github.com/bitcoin-sv/block-headers-service/config"
	"github.com/bitcoin-sv/block-headers-service/database"
	sqlrepository "github.com/bitcoin-sv/block-headers-service/database/repository"
	bhssql "github.com/bitcoin-sv/block-headers-service/database/sql"
	"github.com/bitcoin-sv/block-headers-service/internal/wire"
	"github.com/bitcoin-sv/block-headers-service/metrics"
	"github.com/bitcoin-sv/block-headers-service/notification"
	"github.com/bitcoin-sv/block-headers-service/repository"
	"github.com/bitcoin-sv/block-headers-service/service"
	"github.com/bitcoin-sv/block-headers-service/transports/http/endpoints"
	httpserver "github.com/bitcoin-sv/block-headers-service/transports/http/server"
	peerpkg "github.com/bitcoin-sv/block-headers-service/transports/p2p/peer"
	"github.com/bitcoin-sv/block-headers-service/transports/websocket"
	"github.com/gin-gonic/gin"
	"github.com/jmoiron/sqlx"
	"github.com/rs/zerolog"
)

// RepoRoot is the tree under test (its migrations directory is used).
func RepoRoot() string {
	if r := os.Getenv("VERIF_REPO"); r != "" {
		return r
	}
	return "/repo"
}

var (
	onceInit sync.Once
	nopLog   = zerolog.Nop()
)

// ProcessInit performs what main() does once per process before any service
// is built: viper defaults (which also installs config.Lookup/Dial/
// Checkpoints/TimeSource) and wire limits.
func ProcessInit() {
	onceInit.Do(func() {
		gin.SetMode(gin.ReleaseMode)
		os.Args = []string{os.Args[0]}
		if err := config.SetDefaults("verif", &nopLog); err != nil {
			panic(err)
		}
		wire.SetLimits(config.ExcessiveBlockSize)
		// VERIF_TZ_MINUTES: run the process in a non-UTC local time zone (a fixed offset: no tzdata needed), as a service
		// deployed outside UTC does; stored and exported timestamps must not depend on it
		if v := os.Getenv("VERIF_TZ_MINUTES"); v != "" {
			if m, err := strconv.Atoi(v); err == nil && m != 0 {
				time.Local = time.FixedZone(fmt.Sprintf("verif%+d", m), m*60)
			}
		}
	})
}

// Options configure one stack instance.
type Options struct {
	Dir           string // scratch directory (must exist); the SQLite file lives here
	DBFile        string // optional explicit file name (default bhs.db)
	UseAuth       bool
	AdminToken    string
	MerkleExcess  *int
	MaxTries      int
	Profiling     *bool
	Metrics       bool
	WrapHeaders   func(repository.Headers) repository.Headers
	WrapServices  func(*service.Services)
	WebhookClient notification.WebhookTargetClient
	Websocket     bool // build the websocket server and register SetupEntrypoint + notifier channels (as main does)
	Peers         map[*peerpkg.Peer]*peerpkg.SyncState
	Cfg           func(*config.AppConfig)
	Logger        *zerolog.Logger
}

// Stack is one running instance.
type Stack struct {
	Opts     Options
	Cfg      *config.AppConfig
	DB       *sqlx.DB
	Repo     *repository.Repositories
	SQLRepo  *repository.Repositories // unwrapped SQL repositories
	Services *service.Services
	Engine   *gin.Engine
	WS       websocket.Server
	Log      *zerolog.Logger
	path     string
}

// DBPath is the SQLite file.
func (s *Stack) DBPath() string { return s.path }

// New builds a stack. The caller must Close it.
func New(o Options) (*Stack, error) {
	ProcessInit()
	if o.AdminToken == "" {
		o.AdminToken = config.DefaultAppToken
	}
	if o.DBFile == "" {
		o.DBFile = "bhs.db"
	}
	s := &Stack{Opts: o, path: filepath.Join(o.Dir, o.DBFile)}
	if err := s.open(); err != nil {
		return nil, err
	}
	return s, nil
}

func (s *Stack) open() error {
	o := s.Opts
	cfg := config.GetDefaultAppConfig()
	cfg.Db.SQLite.FilePath = s.path
	cfg.Db.SchemaPath = filepath.Join(RepoRoot(), "database", "migrations")
	cfg.HTTP.UseAuth = o.UseAuth
	cfg.HTTP.AuthToken = o.AdminToken
	if o.MerkleExcess != nil {
		cfg.MerkleRoot.MaxBlockHeightExcess = *o.MerkleExcess
	}
	if o.MaxTries > 0 {
		cfg.Webhook.MaxTries = o.MaxTries
	}
	if o.Profiling != nil {
		cfg.HTTP.ProfilingEndpointsEnabled = *o.Profiling
	}
	cfg.Metrics.Enabled = o.Metrics
	if o.Cfg != nil {
		o.Cfg(cfg)
	}
	log := o.Logger
	if log == nil {
		log = &nopLog
	}
	s.Cfg, s.Log = cfg, log

	db, err := database.Init(cfg, log)
	if err != nil {
		return fmt.Errorf("database.Init: %w", err)
	}
	s.DB = db
	store := bhssql.NewHeadersDb(db, log)
	sqlRepo := &repository.Repositories{
		Headers:  sqlrepository.NewHeadersRepository(store),
		Tokens:   sqlrepository.NewTokensRepository(store),
		Webhooks: sqlrepository.NewWebhooksRepository(store),
	}
	s.SQLRepo = sqlRepo
	repo := &repository.Repositories{Headers: sqlRepo.Headers, Tokens: sqlRepo.Tokens, Webhooks: sqlRepo.Webhooks}
	if o.WrapHeaders != nil {
		repo.Headers = o.WrapHeaders(repo.Headers)
	}
	s.Repo = repo

	peers := o.Peers
	if peers == nil {
		peers = make(map[*peerpkg.Peer]*peerpkg.SyncState)
	}
	hs := service.NewServices(service.Dept{
		Repositories: repo,
		Peers:        peers,
		AdminToken:   cfg.HTTP.AuthToken,
		Logger:       log,
		Config:       cfg,
	})
	if o.WebhookClient != nil {
		hs.Webhooks = notification.NewWebhooksService(repo.Webhooks, o.WebhookClient, log, cfg.Webhook)
	}
	if o.WrapServices != nil {
		o.WrapServices(hs)
	}
	s.Services = hs

	server := httpserver.NewHTTPServer(cfg.HTTP, log)
	if cfg.Metrics.Enabled {
		metrics.EnableMetrics()
	}
	server.ApplyConfiguration(metrics.Register)
	server.ApplyConfiguration(endpoints.SetupRoutes(hs, cfg.HTTP))
	if o.Websocket {
		ws, err := websocket.NewServer(log, hs, cfg.HTTP.UseAuth)
		if err != nil {
			return err
		}
		server.ApplyConfiguration(ws.SetupEntrypoint)
		hs.Notifier.AddChannel(hs.Webhooks)
		hs.Notifier.AddChannel(notification.NewWebsocketChannel(log, ws.Publisher(), cfg.Websocket))
		if err := ws.Start(); err != nil {
			return err
		}
		s.WS = ws
	}
	server.ApplyConfiguration(func(e *gin.Engine) { s.Engine = e })
	return nil
}

// Close releases the database handle (and the websocket node).
func (s *Stack) Close() {
	if s.WS != nil {
		_ = s.WS.Shutdown()
		s.WS = nil
	}
	if s.DB != nil {
		_ = s.DB.Close()
		s.DB = nil
	}
}

// Reopen = process restart on the same database file.
func (s *Stack) Reopen() error {
	s.Close()
	return s.open()
}

// Response of an in-process HTTP call.
type Response struct {
	Code   int
	Body   []byte
	Header http.Header
}

// Do sends a request through the gin engine.
func (s *Stack) Do(method, target string, hdr map[string]string, body []byte) (resp Response, panicked any) {
	var rd io.Reader
	if body != nil {
		rd = bytes.NewReader(body)
	}
	req, err := http.NewRequest(method, "http://bhs.local"+target, rd)
	if err != nil {
		// unparsable target: fall back to a raw request line
		req = httptest.NewRequest(method, "/", rd)
		req.URL.Path = target
		req.RequestURI = target
	}
	for k, v := range hdr {
		req.Header.Set(k, v)
	}
	rec := httptest.NewRecorder()
	func() {
		defer func() {
			if r := recover(); r != nil {
				panicked = r
			}
		}()
		s.Engine.ServeHTTP(rec, req)
	}()
	return Response{Code: rec.Code, Body: rec.Body.Bytes(), Header: rec.Header()}, panicked
}

// Get is shorthand for an unauthenticated/admin GET.
func (s *Stack) Get(target string) Response {
	h := map[string]string{}
	if s.Opts.UseAuth {
		h["Authorization"] = "Bearer " + s.Opts.AdminToken
	}
	r, _ := s.Do("GET", target, h, nil)
	return r
}

// Row is one raw row of the headers table.
type Row struct {
	Hash, Prev, Merkle, State, Chainwork, CumWork, Bits string
	Height, Version, Nonce                              int64
	TimestampUnix                                       int64
	TimestampRaw                                        string
}

// Key renders the immutable part of a row.
func (r Row) Key() string {
	return fmt.Sprintf("%s|%d|%d|%s|%d|%s|%s|%s|%s|%d", r.Hash, r.Height, r.Version, r.Merkle, r.Nonce, r.Bits, r.Chainwork, r.CumWork, r.Prev, r.TimestampUnix)
}

// Headers reads the headers table through a raw query ordered by hash.
func (s *Stack) Headers() ([]Row, error) {
	rows, err := s.DB.Query(`SELECT hash, height, version, merkleroot, nonce, CAST(bits AS TEXT), CAST(chainwork AS TEXT), previous_block, CAST(strftime('%s', timestamp) AS INTEGER), CAST(timestamp AS TEXT), header_state, CAST(cumulated_work AS TEXT) FROM headers ORDER BY hash`)
	if err != nil {
		return nil, err
	}
	defer rows.Close()
	var out []Row
	for rows.Next() {
		var r Row
		var ts *int64
		var raw *string
		if err := rows.Scan(&r.Hash, &r.Height, &r.Version, &r.Merkle, &r.Nonce, &r.Bits, &r.Chainwork, &r.Prev, &ts, &raw, &r.State, &r.CumWork); err != nil {
			return nil, err
		}
		if ts != nil {
			r.TimestampUnix = *ts
		}
		if raw != nil {
			r.TimestampRaw = *raw
		}
		out = append(out, r)
	}
	return out, rows.Err()
}

// Digest is a string covering headers (all columns), tokens and webhooks.
func (s *Stack) Digest() (string, error) {
	hs, err := s.Headers()
	if err != nil {
		return "", err
	}
	var b strings.Builder
	for _, r := range hs {
		b.WriteString(r.Key())
		b.WriteString("|")
		b.WriteString(r.State)
		b.WriteString("|")
		b.WriteString(r.TimestampRaw)
		b.WriteString("\n")
	}
	for _, q := range []string{
		`SELECT token FROM tokens ORDER BY token`,
		`SELECT url || '|' || COALESCE(token_header,'') || '|' || COALESCE(token,'') || '|' || COALESCE(last_emit_status,'') || '|' || COALESCE(errors_count,0) || '|' || COALESCE(is_active,0) FROM webhooks ORDER BY url`,
	} {
		rows, err := s.DB.Query(q)
		if err != nil {
			return "", err
		}
		var items []string
		for rows.Next() {
			var v string
			if err := rows.Scan(&v); err != nil {
				rows.Close()
				return "", err
			}
			items = append(items, v)
		}
		rows.Close()
		sort.Strings(items)
		b.WriteString("--\n")
		b.WriteString(strings.Join(items, "\n"))
	}
	return b.String(), nil
}

// WipeHeaders removes every non-genesis header, all tokens and webhooks
// (used by the bounded-exhaustive modes instead of a fresh file).
func (s *Stack) WipeHeaders() error {
	for _, q := range []string{`DELETE FROM headers WHERE height <> 0 OR previous_block <> '0000000000000000000000000000000000000000000000000000000000000000'`, `UPDATE headers SET header_state='LONGEST_CHAIN'`, `DELETE FROM tokens`, `DELETE FROM webhooks`} {
		if _, err := s.DB.Exec(q); err != nil {
			return err
		}
	}
	return nil
}

// Scratch returns a fresh directory below VERIF_SCRATCH (or /dev/shm).
func Scratch(name string) string {
	base := os.Getenv("VERIF_SCRATCH")
	if base == "" {
		base = "/dev/shm"
		if _, err := os.Stat(base); err != nil {
			base = os.TempDir()
		}
		base = filepath.Join(base, fmt.Sprintf("verif.adhoc.%d", os.Getpid()))
	}
	d := filepath.Join(base, name)
	_ = os.RemoveAll(d)
	if err := os.MkdirAll(d, 0o755); err != nil {
		panic(err)
	}
	return d
}

// RemoveDB deletes the SQLite file and its side files.
func RemoveDB(path string) {
	for _, suf := range []string{"", "-journal", "-wal", "-shm"} {
		_ = os.Remove(path + suf)
	}
}

var _ = time.Now
