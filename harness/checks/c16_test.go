package checks

import (
	"bytes"
	"encoding/json"
	"fmt"
	"io"
	"net/url"
	"path/filepath"
	"sort"
	"strings"
	"testing"

	"github.com/bitcoin-sv/block-headers-service/verifharness/hist"
	"github.com/bitcoin-sv/block-headers-service/verifharness/model"
	"github.com/bitcoin-sv/block-headers-service/verifharness/stack"
	"github.com/bitcoin-sv/block-headers-service/verifharness/stats"
	"pgregory.net/rapid"
)

// Req is one generated request in concrete form (so that replays are self-contained).
type Req struct {
	Method string `json:"method"`
	Target string `json:"target"`
	Body   string `json:"body,omitempty"`
	CT     string `json:"ct,omitempty"`
	Route  string `json:"route"`
	Odd    int    `json:"odd"` // number of out-of-grammar values
	// Repeat > 0 (verify requests): the body is a JSON array of that many items - Body holds ONE item (absurd lengths
	// without megabytes in plans and replays)
	Repeat int `json:"repeat,omitempty"`
}

// C16Plan: a store (fixed shape, see c16Store) + a list of requests.
type C16Plan struct {
	Auth bool  `json:"auth"`
	Reqs []Req `json:"reqs"`
}

type c16Fixture struct {
	S       *stack.Stack
	T       *model.Tree
	Auth    bool
	Routes  [][2]string
	Longest []string
	Stale   []string
	Orphan  []string
	Roots   []string
}

var c16fx = map[bool]*c16Fixture{}

// c16Store builds a store with forks, stale branches and orphans (once per process and auth mode).
func c16Store(auth bool) (*c16Fixture, error) {
	if f := c16fx[auth]; f != nil {
		return f, nil
	}
	dir := scratchDir(fmt.Sprintf("c16-%v", auth))
	stack.RemoveDB(filepath.Join(dir, "bhs.db"))
	// main chain 0..6, stale branch from 2 (two blocks), stale sibling at 5, orphan chain of 2, lone orphan
	p := &hist.Plan{}
	add := func(parent int, bits uint32) int {
		p.Specs = append(p.Specs, hist.Spec{Parent: parent, Bits: bits, Version: 1, Nonce: uint32(len(p.Specs)), Time: 1600000000 + uint32(len(p.Specs)), Merkle: uint64(len(p.Specs) + 1)})
		p.Delivery = append(p.Delivery, len(p.Specs)-1)
		return len(p.Specs) - 1
	}
	prev := -1
	var main []int
	for i := 0; i < 6; i++ {
		prev = add(prev, 0x1d00ffff)
		main = append(main, prev)
	}
	s1 := add(main[1], 0x1d00ffff)
	add(s1, 0x1d00ffff)
	add(main[3], 0x1d00ffff)
	o1 := add(-2, 0x1d00ffff)
	add(o1, 0x1d00ffff)
	add(-3, 0x1d00ffff)
	r, err := hist.NewRig(dir, p, stack.Options{UseAuth: auth, AdminToken: "c16-admin-token"})
	if err != nil {
		return nil, err
	}
	for _, i := range p.Delivery {
		if _, _, err := r.Deliver(i); err != nil {
			return nil, err
		}
	}
	f := &c16Fixture{S: r.S, T: r.T, Auth: auth}
	for _, n := range r.T.Order {
		switch n.Label {
		case model.Longest:
			f.Longest = append(f.Longest, n.HashStr)
		case model.Stale:
			f.Stale = append(f.Stale, n.HashStr)
		default:
			f.Orphan = append(f.Orphan, n.HashStr)
		}
		f.Roots = append(f.Roots, model.HashStr(n.H.Merkle))
	}
	for _, rt := range r.S.Engine.Routes() {
		if strings.HasPrefix(rt.Path, apiPrefix+"/") {
			f.Routes = append(f.Routes, [2]string{rt.Method, rt.Path})
		}
	}
	sort.Slice(f.Routes, func(i, j int) bool { return f.Routes[i][1]+f.Routes[i][0] < f.Routes[j][1]+f.Routes[j][0] })
	// one webhook and one token exist
	_, _ = r.S.Services.Webhooks.CreateWebhook("bearer", "", "tok", "http://hook.invalid/existing")
	c16fx[auth] = f
	return f, nil
}

// ---- value classes ---------------------------------------------------------

func (f *c16Fixture) drawHash(t *rapid.T, odd *int) string {
	k := rapid.IntRange(0, 15).Draw(t, "hk")
	pick := func(l []string) string { return l[rapid.IntRange(0, len(l)-1).Draw(t, "hi")] }
	switch {
	case k < 4:
		return pick(f.Longest)
	case k < 6:
		return pick(f.Stale)
	case k < 8:
		return pick(f.Orphan)
	case k == 8:
		return f.Longest[0] // genesis
	}
	*odd++
	switch k {
	case 9:
		return model.HashStr(hist.UnknownParent(rapid.IntRange(0, 50).Draw(t, "unk")))
	case 10:
		return pick(f.Longest)[:63]
	case 11:
		return pick(f.Longest) + "0"
	case 12:
		return strings.ToUpper(pick(f.Longest))
	case 13:
		return rapid.SampledFrom([]string{"zz", "g" + strings.Repeat("0", 63), "%00", "..", "null", "0", "-1", "'", "\"", "{}", "a b", "%2F", "%zz"}).Draw(t, "hbad")
	case 14:
		return strings.Repeat("a", rapid.SampledFrom([]int{1, 65, 1000, 10000}).Draw(t, "hlen"))
	}
	return ""
}

var intClasses = []string{"-9223372036854775808", "-2147483649", "-2147483648", "-1", "0", "1", "2", "5", "6", "7", "2147483647", "2147483648", "9223372036854775807", "9223372036854775808", "1000000000000000000000000000000", "1e3", "0x10", "+5", " 5", "5 ", "", "abc", "1.5", "٣", "null", "true", "00", "-0"}

func drawInt(t *rapid.T, label string, odd *int) string {
	i := rapid.IntRange(0, len(intClasses)+6).Draw(t, label)
	if i >= len(intClasses) {
		return fmt.Sprint(rapid.IntRange(-3, 12).Draw(t, label+"n"))
	}
	v := intClasses[i]
	if v != "0" && v != "1" && v != "2" && v != "5" && v != "6" && v != "7" {
		*odd++
	}
	return v
}

func (f *c16Fixture) drawJSON(t *rapid.T, shape string, odd *int) (string, string) {
	ct := "application/json"
	if rapid.IntRange(0, 9).Draw(t, "ctk") == 0 {
		ct = rapid.SampledFrom([]string{"", "text/plain", "application/xml", "application/x-www-form-urlencoded", "multipart/form-data", "application/json; charset=utf-8"}).Draw(t, "ct")
		*odd++
	}
	var valid string
	switch shape {
	case "hashes":
		n := rapid.IntRange(0, 5).Draw(t, "nh")
		var l []string
		for i := 0; i < n; i++ {
			l = append(l, f.drawHash(t, odd))
		}
		if n == 0 {
			*odd++
			l = []string{}
		}
		b, _ := json.Marshal(l)
		valid = string(b)
	case "verify":
		n := rapid.IntRange(0, 4).Draw(t, "nv")
		if n == 0 {
			*odd++
		}
		var items []string
		for i := 0; i < n; i++ {
			root := f.Roots[rapid.IntRange(0, len(f.Roots)-1).Draw(t, "vr")]
			if rapid.IntRange(0, 4).Draw(t, "vrk") == 0 {
				root = f.drawHash(t, odd)
			}
			h := drawInt(t, "vh", odd)
			if _, err := fmt.Sscanf(h, "%d", new(int64)); err != nil || strings.TrimSpace(h) != h || h == "" || strings.HasPrefix(h, "+") || strings.HasPrefix(h, "0x") || h == "00" || h == "-0" {
				h = fmt.Sprintf("%q", h) // non-numeric: send as JSON string (wrong type)
			}
			items = append(items, fmt.Sprintf(`{"merkleRoot":%q,"blockHeight":%s}`, root, h))
		}
		valid = "[" + strings.Join(items, ",") + "]"
	case "webhook":
		u := rapid.SampledFrom([]string{"http://hook.invalid/a", "http://hook.invalid/existing", "", "not a url", "http://hook.invalid/" + strings.Repeat("x", 300)}).Draw(t, "wu")
		ty := rapid.SampledFrom([]string{"bearer", "Bearer", "custom_header", "", "weird"}).Draw(t, "wt")
		valid = fmt.Sprintf(`{"url":%q,"requiredAuth":{"type":%q,"token":"tok","header":"X-H"}}`, u, ty)
	}
	switch k := rapid.IntRange(0, 19).Draw(t, "bk"); {
	case k < 9:
		return valid, ct
	case k == 9:
		*odd++
		return "", ct
	case k == 10:
		*odd++
		return rapid.SampledFrom([]string{"null", "[]", "{}", "0", "\"x\"", "true", "[null]", "[1,2]", "[{}]", "[[]]", "{\"url\":5}", "{\"url\":null}", "[{\"merkleRoot\":5,\"blockHeight\":\"x\"}]", "{\"requiredAuth\":[]}"}).Draw(t, "bw"), ct
	case k == 11:
		*odd++
		if len(valid) > 1 {
			return valid[:rapid.IntRange(0, len(valid)-1).Draw(t, "cut")], ct
		}
		return valid, ct
	case k == 12:
		*odd++
		return rapid.SampledFrom([]string{"not json", "<xml/>", "\x00\x01", "{'a':1}", "[", "]", "{\"a\":1}{\"b\":2}", "[\"a\"]]", "\xff\xfe"}).Draw(t, "bn"), ct
	case k == 13:
		*odd++
		return strings.Repeat("[", rapid.SampledFrom([]int{100, 10000}).Draw(t, "depth")), ct
	case k == 14:
		*odd++
		return "[" + strings.Repeat(`"a",`, 200000) + `"a"]`, ct
	case k == 15:
		*odd++
		return `{"url":"http://a.invalid","url":"http://b.invalid","requiredAuth":{"type":"bearer","type":"x"}}`, ct
	default:
		// byte mutation of the valid body
		*odd++
		b := []byte(valid)
		if len(b) == 0 {
			return valid, ct
		}
		for i := 0; i < rapid.IntRange(1, 3).Draw(t, "nm"); i++ {
			pos := rapid.IntRange(0, len(b)-1).Draw(t, "mp")
			switch rapid.IntRange(0, 2).Draw(t, "mk") {
			case 0:
				b[pos] ^= byte(1 << rapid.IntRange(0, 7).Draw(t, "bit"))
			case 1:
				b = append(b[:pos], b[pos+1:]...)
			default:
				b = append(b[:pos], append([]byte{byte(rapid.IntRange(0, 255).Draw(t, "ins"))}, b[pos:]...)...)
			}
			if len(b) == 0 {
				break
			}
		}
		return string(b), ct
	}
}

func (f *c16Fixture) genReq(t *rapid.T) Req {
	rt := f.Routes[rapid.IntRange(0, len(f.Routes)-1).Draw(t, "route")]
	q := Req{Method: rt[0], Route: rt[1]}
	odd := 0
	target := paramRe.ReplaceAllStringFunc(rt[1], func(p string) string {
		if p == ":token" {
			return rapid.SampledFrom([]string{"nosuchtoken", "c16-admin-token", "%20", "a/b", strings.Repeat("t", 500), "'; DROP TABLE tokens;--"}).Draw(t, "tok")
		}
		return url.PathEscape(f.drawHash(t, &odd))
	})
	vals := url.Values{}
	switch {
	case strings.HasSuffix(rt[1], "/byHeight"):
		if rapid.IntRange(0, 9).Draw(t, "hp") > 0 {
			vals.Set("height", drawInt(t, "height", &odd))
		} else {
			odd++
		}
		if rapid.IntRange(0, 2).Draw(t, "cp") > 0 {
			vals.Set("count", drawInt(t, "count", &odd))
		}
	case strings.HasSuffix(rt[1], "/merkleroot") && rt[0] == "GET":
		if rapid.IntRange(0, 2).Draw(t, "bp") > 0 {
			vals.Set("batchSize", drawInt(t, "batch", &odd))
		}
		if rapid.IntRange(0, 1).Draw(t, "kp") > 0 {
			if rapid.IntRange(0, 1).Draw(t, "kk") == 0 {
				vals.Set("lastEvaluatedKey", f.Roots[rapid.IntRange(0, len(f.Roots)-1).Draw(t, "kr")])
			} else {
				vals.Set("lastEvaluatedKey", f.drawHash(t, &odd))
			}
		}
	case strings.HasSuffix(rt[1], "/webhook") && rt[0] != "POST":
		if rapid.IntRange(0, 4).Draw(t, "up") > 0 {
			vals.Set("url", rapid.SampledFrom([]string{"http://hook.invalid/existing", "http://hook.invalid/none", "", "x", strings.Repeat("u", 3000), "%"}).Draw(t, "url"))
		}
	}
	if rapid.IntRange(0, 14).Draw(t, "xq") == 0 {
		vals.Set(rapid.SampledFrom([]string{"height", "x", "count", "url", "batchSize"}).Draw(t, "xqk"), rapid.SampledFrom([]string{"", "1", "a", "1&1"}).Draw(t, "xqv"))
	}
	if len(vals) > 0 {
		target += "?" + vals.Encode()
	}
	switch {
	case strings.HasSuffix(rt[1], "/commonAncestor"):
		q.Body, q.CT = f.drawJSON(t, "hashes", &odd)
	case strings.HasSuffix(rt[1], "/verify"):
		q.Body, q.CT = f.drawJSON(t, "verify", &odd)
		if rapid.Uint32().Draw(t, "manyk")%24 == 5 {
			// a well-formed request of absurd length: one verdict per item is still the only acceptable answer
			q.Body, q.CT = fmt.Sprintf(`{"merkleRoot":%q,"blockHeight":%d}`, f.Roots[rapid.IntRange(0, len(f.Roots)-1).Draw(t, "mr")], rapid.IntRange(0, 9).Draw(t, "mh")), "application/json"
			q.Repeat = rapid.SampledFrom([]int{999, 1000, 1001, 32766, 32767, 32768, 40000, 65535, 65536, 70000}).Draw(t, "many")
		}
	case strings.HasSuffix(rt[1], "/webhook") && rt[0] == "POST":
		q.Body, q.CT = f.drawJSON(t, "webhook", &odd)
	default:
		if rapid.IntRange(0, 9).Draw(t, "xb") == 0 {
			q.Body, q.CT = "{\"unexpected\":true}", "application/json"
		}
	}
	// raw mutation of the path (rare)
	if rapid.IntRange(0, 24).Draw(t, "pm") == 0 {
		odd++
		b := []byte(target)
		pos := rapid.IntRange(len(apiPrefix)+1, len(b)-1).Draw(t, "pmp")
		b[pos] = byte(rapid.SampledFrom([]int{'/', '%', ' ', '?', '#', 0x7f, '\\', ';', '.'}).Draw(t, "pmb"))
		target = string(b)
	}
	q.Target, q.Odd = target, odd
	return q
}

// oneJSONValue: the body is exactly one JSON value followed by EOF.
func oneJSONValue(b []byte) error {
	dec := json.NewDecoder(bytes.NewReader(b))
	var v any
	if err := dec.Decode(&v); err != nil {
		return fmt.Errorf("not JSON (%v)", err)
	}
	if _, err := dec.Token(); err != io.EOF {
		return fmt.Errorf("more than one JSON document")
	}
	return nil
}

func snip(b []byte) string {
	if len(b) > 300 {
		return string(b[:300]) + "..."
	}
	return string(b)
}

func runC16(p *C16Plan) (*stats.Case, error) {
	f, err := c16Store(p.Auth)
	if err != nil {
		return nil, fmt.Errorf("infra: %w", err)
	}
	hdrBase := map[string]string{}
	if p.Auth {
		hdrBase["Authorization"] = "Bearer c16-admin-token"
	}
	hdigest := func() string {
		rows, _ := f.S.Headers()
		return tableState(rows)
	}
	before := hdigest()
	routed, oddReqs := 0, 0
	cl := map[string]int64{"requests": int64(len(p.Reqs))}
	for i, q := range p.Reqs {
		hdr := map[string]string{}
		for k, v := range hdrBase {
			hdr[k] = v
		}
		if q.CT != "" {
			hdr["Content-Type"] = q.CT
		}
		var body []byte
		if q.Body != "" || q.Method == "POST" {
			body = []byte(q.Body)
		}
		if q.Repeat > 0 {
			body = []byte("[" + strings.Repeat(q.Body+",", q.Repeat-1) + q.Body + "]")
			cl["verify_requests_with_thousands_of_items"]++
		}
		resp, pan := f.S.Do(q.Method, q.Target, hdr, body)
		what := fmt.Sprintf("request %d: %s %s body %q (route %s)", i, q.Method, snip([]byte(q.Target)), snip([]byte(q.Body)), q.Route)
		if pan != nil {
			return nil, fmt.Errorf("%s: handler panicked through the engine: %v", what, pan)
		}
		if resp.Code >= 500 {
			return nil, fmt.Errorf("%s: status %d body %s", what, resp.Code, snip(resp.Body))
		}
		unrouted := (resp.Code == 404 && strings.HasPrefix(string(resp.Body), "404 page not found")) || resp.Code == 301 || resp.Code == 307
		if unrouted {
			cl["unrouted"]++
			continue
		}
		routed++
		if q.Odd > 0 {
			oddReqs++
		}
		cl[fmt.Sprintf("status_%dxx", resp.Code/100)]++
		if err := oneJSONValue(resp.Body); err != nil {
			return nil, fmt.Errorf("%s: status %d, body is not a single JSON document: %v: %q", what, resp.Code, err, snip(resp.Body))
		}
		if resp.Code < 300 {
			// an error document (code + message) is what a client mistake earns - with a 4xx status, never dressed as success
			var e errResp
			if json.Unmarshal(resp.Body, &e) == nil && e.Code != "" && e.Message != "" {
				return nil, fmt.Errorf("%s: status %d with an error document as body: %q", what, resp.Code, snip(resp.Body))
			}
		}
		if resp.Code >= 400 {
			var e errResp
			if json.Unmarshal(resp.Body, &e) != nil || e.Code == "" || e.Message == "" {
				return nil, fmt.Errorf("%s: status %d without a structured error (code+message): %q", what, resp.Code, snip(resp.Body))
			}
		}
		if i%16 == 15 || i == len(p.Reqs)-1 {
			if after := hdigest(); after != before {
				return nil, fmt.Errorf("%s: header store changed by API requests", what)
			}
		}
	}
	// server still alive and answering a well-formed request
	if resp := f.S.Get(apiPrefix + "/chain/tip/longest"); resp.Code != 200 {
		return nil, fmt.Errorf("server no longer answers a well-formed request: %d", resp.Code)
	}
	// undo token/webhook mutations so that cases stay independent
	_, _ = f.S.DB.Exec(`DELETE FROM tokens`)
	_, _ = f.S.DB.Exec(`DELETE FROM webhooks WHERE url <> 'http://hook.invalid/existing'`)
	_, _ = f.S.DB.Exec(`UPDATE webhooks SET is_active = 1, errors_count = 0`)
	cl["routed_requests"] = int64(routed)
	cl["routed_with_out_of_grammar_value"] = int64(oddReqs)
	cl["auth_on"] = b2i(p.Auth)
	return &stats.Case{Sig: stats.Sig(p.Auth, fmt.Sprint(p.Reqs)), Nontrivial: oddReqs > 0, Classes: cl, Sample: sampleC16(p)}, nil
}

func sampleC16(p *C16Plan) any {
	q := *p
	q.Reqs = nil
	for _, r := range p.Reqs {
		if len(r.Body) > 200 {
			r.Body = r.Body[:200] + "..."
		}
		if len(r.Target) > 300 {
			r.Target = r.Target[:300] + "..."
		}
		q.Reqs = append(q.Reqs, r)
	}
	return q
}

// c16Known recognises open findings (none).
func c16Known(p *C16Plan, err error) string { return "" }

var propC16 = Prop[*C16Plan]{
	ID:   "C16",
	Name: "TestC16",
	Gen: func(t *rapid.T) *C16Plan {
		p := &C16Plan{Auth: rapid.Bool().Draw(t, "auth")}
		f, err := c16Store(p.Auth)
		if err != nil {
			t.Fatalf("infra: %v", err)
		}
		n := rapid.IntRange(1, 24).Draw(t, "nreq")
		for i := 0; i < n; i++ {
			p.Reqs = append(p.Reqs, f.genReq(t))
		}
		return p
	},
	Run:   runC16,
	Known: c16Known,
}

func TestC16(t *testing.T) {
	if propC16.replayEnv(t) {
		return
	}
	propC16.Check(t)
}

func TestC16Regress(t *testing.T) { propC16.Regress(t) }
