package checks

import (
	"encoding/json"
	"errors"
	"fmt"
	"path/filepath"
	"strings"
	"sync"
	"testing"
	"time"

	"github.com/bitcoin-sv/block-headers-service/domains"
	"github.com/bitcoin-sv/block-headers-service/notification"
	"github.com/bitcoin-sv/block-headers-service/repository"
	"github.com/bitcoin-sv/block-headers-service/verifharness/hist"
	"github.com/bitcoin-sv/block-headers-service/verifharness/interpose"
	"github.com/bitcoin-sv/block-headers-service/verifharness/model"
	"github.com/bitcoin-sv/block-headers-service/verifharness/stack"
	"github.com/bitcoin-sv/block-headers-service/verifharness/stats"
	"github.com/centrifugal/centrifuge"
	"pgregory.net/rapid"
)

// C11Plan: a history, channel behaviours and injected store failures.
type C11Plan struct {
	Hist     *hist.Plan `json:"hist"`
	Channels []string   `json:"channels"` // ok | slow | block | wsok | wserr | webhook | deadwebhook | hungwebhook
	// "deadwebhook" (only together with "webhook"): another webhook, registered BEFORE the healthy one, whose target always
	// answers 500; with max_tries = 1 it is switched off by the first event - the healthy webhook must keep receiving
	FailAt []int `json:"failAt"` // write indices (1-based) that fail
}

type evRec struct {
	Hash, Prev, Merkle, State, Work string
	Height, Version                 int32
	Nonce                           uint32
	TS                              int64
}

func recOf(e *domains.HeaderEvent) (evRec, error) {
	if e == nil || e.Header == nil || e.Operation != domains.EventHeaderAdded {
		return evRec{}, fmt.Errorf("event is not an ADD event: %+v", e)
	}
	h := e.Header
	w := ""
	if h.CumulatedWork != nil {
		w = h.CumulatedWork.String()
	}
	return evRec{Hash: h.Hash, Prev: h.PreviousBlock, Merkle: h.MerkleRoot, State: string(h.State), Work: w, Height: h.Height, Version: h.Version, Nonce: h.Nonce, TS: h.Timestamp.Unix()}, nil
}

type recChan struct {
	mode    string
	mu      sync.Mutex
	started []evRec // events whose Notify was entered
	done    []evRec // events whose Notify completed
	bad     []string
	release chan struct{}
}

func (c *recChan) Notify(ev notification.Event) {
	he, _ := ev.(*domains.HeaderEvent)
	r, err := recOf(he)
	c.mu.Lock()
	if err != nil {
		c.bad = append(c.bad, err.Error())
	}
	c.started = append(c.started, r)
	c.mu.Unlock()
	switch c.mode {
	case "slow":
		time.Sleep(3 * time.Millisecond)
	case "block":
		<-c.release
	}
	c.mu.Lock()
	c.done = append(c.done, r)
	c.mu.Unlock()
}

type recPublisher struct {
	fail bool
	keys map[string]bool
	mu   sync.Mutex
	recs []evRec
	bad  []string
}

func (p *recPublisher) Publish(channel string, data []byte, opts ...centrifuge.PublishOption) (centrifuge.PublishResult, error) {
	var e domains.HeaderEvent
	p.mu.Lock()
	defer p.mu.Unlock()
	// like the broker: a publication that carries an idempotency key seen before (on this channel) is dropped silently
	po := &centrifuge.PublishOptions{}
	for _, o := range opts {
		o(po)
	}
	if po.IdempotencyKey != "" {
		if p.keys == nil {
			p.keys = map[string]bool{}
		}
		if p.keys[channel+"\x00"+po.IdempotencyKey] {
			return centrifuge.PublishResult{}, nil
		}
		p.keys[channel+"\x00"+po.IdempotencyKey] = true
	}
	if channel != "headers" {
		p.bad = append(p.bad, "published to channel "+channel)
	}
	if err := json.Unmarshal(data, &e); err != nil {
		p.bad = append(p.bad, "unparsable publication: "+err.Error())
	} else if r, err := recOf(&e); err != nil {
		p.bad = append(p.bad, err.Error())
	} else {
		p.recs = append(p.recs, r)
	}
	if p.fail {
		return centrifuge.PublishResult{}, errors.New("publish failed (scripted)")
	}
	return centrifuge.PublishResult{}, nil
}

var (
	c11Dir string
	c11Seq int
)

func runC11(p *C11Plan) (*stats.Case, error) {
	if c11Dir == "" {
		c11Dir = scratchDir("c11")
	}
	// a fresh file name per case: delivery goroutines of the previous case may still hold the old file
	c11Seq++
	dbName := fmt.Sprintf("c11-%d.db", c11Seq)
	stack.RemoveDB(filepath.Join(c11Dir, fmt.Sprintf("c11-%d.db", c11Seq-3)))
	var ip *interpose.Headers
	failSet := map[int]bool{}
	for _, k := range p.FailAt {
		failSet[k] = true
	}
	sc := &scriptedClient{next: func() int { return 0 }, byURL: func(u string) (int, bool) { return 3, strings.HasSuffix(u, "/dead") }}
	withDead, withHung := false, false
	for _, c := range p.Channels {
		withDead = withDead || c == "deadwebhook"
		withHung = withHung || c == "hungwebhook"
	}
	maxTries := 0
	if withDead {
		maxTries = 1
	}
	r, err := hist.NewRig(c11Dir, p.Hist, stack.Options{DBFile: dbName, WebhookClient: sc, MaxTries: maxTries, WrapHeaders: func(h repository.Headers) repository.Headers { ip = interpose.Wrap(h); return ip }})
	if err != nil {
		return nil, fmt.Errorf("infra: %w", err)
	}
	release := make(chan struct{})
	// a webhook receiver that accepts the request and does not answer (until the end of the case)
	sc.hang = func(u string) <-chan struct{} {
		if strings.HasSuffix(u, "/hung") {
			return release
		}
		return nil
	}
	released := false
	doRelease := func() {
		if !released {
			released = true
			close(release)
		}
	}
	defer func() { doRelease(); time.Sleep(2 * time.Millisecond); r.Close() }()
	var recs []*recChan
	var pubs []*recPublisher
	hasWebhook, hasBlock, hasFailing, hungRegistered := false, false, false, false
	for _, c := range p.Channels {
		switch c {
		case "ok", "slow", "block":
			rc := &recChan{mode: c, release: release}
			recs = append(recs, rc)
			r.S.Services.Notifier.AddChannel(rc)
			hasBlock = hasBlock || c == "block"
		case "wsok", "wserr":
			pb := &recPublisher{fail: c == "wserr"}
			pubs = append(pubs, pb)
			r.S.Services.Notifier.AddChannel(notification.NewWebsocketChannel(r.S.Log, pb, r.S.Cfg.Websocket))
			hasFailing = hasFailing || c == "wserr"
		case "hungwebhook":
			// the webhooks channel consists of one webhook whose receiver never answers: the channel as a whole hangs
			// (webhooks are served one after the other, so a healthy webhook behind it is not expected to be served)
			if !hungRegistered {
				hungRegistered = true
				if _, err := r.S.Services.Webhooks.CreateWebhook("bearer", "", "t", "http://hook.invalid/hung"); err != nil {
					return nil, fmt.Errorf("infra: %w", err)
				}
				r.S.Services.Notifier.AddChannel(r.S.Services.Webhooks)
				hasBlock = true
			}
		case "webhook":
			if !hasWebhook && !withHung {
				hasWebhook = true
				if withDead {
					if _, err := r.S.Services.Webhooks.CreateWebhook("bearer", "", "t", "http://hook.invalid/dead"); err != nil {
						return nil, fmt.Errorf("infra: %w", err)
					}
				}
				if _, err := r.S.Services.Webhooks.CreateWebhook("bearer", "", "t", "http://hook.invalid/c11"); err != nil {
					return nil, fmt.Errorf("infra: %w", err)
				}
				r.S.Services.Notifier.AddChannel(r.S.Services.Webhooks)
			}
		}
	}
	// expected events: headers whose Add returned success, with the fields Add returned
	expected := map[string]evRec{}
	dups, forb, failed := 0, 0, 0
	writes := 0
	for step, idx := range p.Hist.Delivery {
		if idx < 0 || idx >= len(r.Headers) {
			continue
		}
		// arm the interposer: fail the next write if its index is listed
		ip.FailAt = 0
		for k := range failSet {
			if k > ip.Writes {
				if ip.FailAt == 0 || k < ip.FailAt {
					ip.FailAt = k
				}
			}
		}
		h := r.Headers[idx]
		type addRes struct {
			bh  *domains.BlockHeader
			err error
		}
		ch := make(chan addRes, 1)
		go func() {
			bh, err := r.S.Services.Chains.Add(hist.ToSource(h))
			ch <- addRes{bh, err}
		}()
		var res addRes
		select {
		case res = <-ch:
		case <-time.After(5 * time.Second):
			doRelease()
			return nil, fmt.Errorf("step %d: Chains.Add did not return within 5 s while a notification channel blocks - ingestion is blocked by a channel", step)
		}
		writes = ip.Writes
		switch {
		case res.err == nil && res.bh != nil:
			bh := res.bh
			if _, dup := expected[bh.Hash.String()]; dup {
				return nil, fmt.Errorf("step %d: Add reported %s stored twice", step, bh.Hash.String())
			}
			expected[bh.Hash.String()] = evRec{Hash: bh.Hash.String(), Prev: bh.PreviousBlock.String(), Merkle: bh.MerkleRoot.String(), State: string(bh.State), Work: bh.CumulatedWork.String(), Height: bh.Height, Version: bh.Version, Nonce: bh.Nonce, TS: bh.Timestamp.Unix()}
			// cross-check with the submitted header
			if [32]byte(bh.Hash) != r.Hashes[idx] {
				return nil, fmt.Errorf("step %d: Add returned a different header", step)
			}
		case res.err != nil && res.err.Error() == "HeaderAlreadyExists":
			dups++
		case res.err != nil && res.err.Error() == "BlockRejected":
			forb++
		default:
			failed++
		}
	}
	_ = writes
	// bounded drain
	count := func() (min int, max int) {
		min, max = 1<<30, 0
		upd := func(n int) {
			if n < min {
				min = n
			}
			if n > max {
				max = n
			}
		}
		for _, rc := range recs {
			rc.mu.Lock()
			if rc.mode == "block" {
				upd(len(rc.started))
			} else {
				upd(len(rc.done))
			}
			rc.mu.Unlock()
		}
		for _, pb := range pubs {
			pb.mu.Lock()
			upd(len(pb.recs))
			pb.mu.Unlock()
		}
		if hasWebhook {
			sc.mu.Lock()
			n := 0
			for _, c := range sc.calls {
				if !strings.HasSuffix(c.URL, "/dead") && !strings.HasSuffix(c.URL, "/hung") {
					n++
				}
			}
			upd(n)
			sc.mu.Unlock()
		}
		// (no channel that can be counted, e.g. only a hung webhook: min stays huge and the drain ends at once)
		return
	}
	deadline := time.Now().Add(10 * time.Second)
	for {
		mn, _ := count()
		if mn >= len(expected) || time.Now().After(deadline) {
			break
		}
		time.Sleep(time.Millisecond)
	}
	time.Sleep(15 * time.Millisecond) // late surplus events
	check := func(name string, got []evRec, bad []string) error {
		if len(bad) > 0 {
			return fmt.Errorf("channel %s: %s", name, bad[0])
		}
		seen := map[string]int{}
		for _, e := range got {
			seen[e.Hash]++
			want, ok := expected[e.Hash]
			if !ok {
				return fmt.Errorf("channel %s received an event for %s, which ingestion did not report as stored (duplicates %d, forbidden %d, failed %d)", name, e.Hash, dups, forb, failed)
			}
			if e != want {
				return fmt.Errorf("channel %s: event %+v differs from the stored header %+v", name, e, want)
			}
		}
		for h := range expected {
			if seen[h] != 1 {
				return fmt.Errorf("channel %s received %d events for stored header %s (expected exactly one; %d stored, %d events)", name, seen[h], h, len(expected), len(got))
			}
		}
		return nil
	}
	for i, rc := range recs {
		rc.mu.Lock()
		got := append([]evRec{}, rc.done...)
		if rc.mode == "block" {
			got = append([]evRec{}, rc.started...)
		}
		bad := append([]string{}, rc.bad...)
		rc.mu.Unlock()
		if err := check(fmt.Sprintf("#%d(%s)", i, rc.mode), got, bad); err != nil {
			return nil, err
		}
	}
	for i, pb := range pubs {
		pb.mu.Lock()
		got, bad := append([]evRec{}, pb.recs...), append([]string{}, pb.bad...)
		pb.mu.Unlock()
		if err := check(fmt.Sprintf("websocket#%d(fail=%v)", i, pb.fail), got, bad); err != nil {
			return nil, err
		}
	}
	if hasWebhook {
		sc.mu.Lock()
		calls := append([]whCall{}, sc.calls...)
		sc.mu.Unlock()
		var got []evRec
		deadCalls := 0
		for _, c := range calls {
			if strings.HasSuffix(c.URL, "/dead") {
				deadCalls++
				continue
			}
			if strings.HasSuffix(c.URL, "/hung") {
				continue
			}
			var e domains.HeaderEvent
			if err := json.Unmarshal([]byte(c.Body), &e); err != nil {
				return nil, fmt.Errorf("webhook body unparsable: %s", c.Body)
			}
			rr, err := recOf(&e)
			if err != nil {
				return nil, fmt.Errorf("webhook: %w", err)
			}
			got = append(got, rr)
		}
		if err := check("webhook", got, nil); err != nil {
			if withDead {
				return nil, fmt.Errorf("%w (another webhook, registered earlier, was switched off after its first failure; it was called %d times)", err, deadCalls)
			}
			return nil, err
		}
		// (how often the failing webhook itself is called is C12's subject - and events delivered concurrently may reach it
		// before its first failure is recorded)
	}
	tr := model.NewTree(hist.Genesis())
	cl := map[string]int64{"plans": 1, "stored": int64(len(expected)), "duplicates": int64(dups), "forbidden": int64(forb), "failed_stores": int64(failed),
		"with_blocking_channel": b2i(hasBlock), "with_failing_channel": b2i(hasFailing), "with_webhook_channel": b2i(hasWebhook), "with_dead_webhook_registered_first": b2i(hasWebhook && withDead), "with_hung_webhook": b2i(withHung),
		"with_64_or_more_stored_while_a_channel_hangs": b2i(hasBlock && len(expected) >= 64), "channels": int64(len(p.Channels))}
	_ = tr
	nt := (dups > 0 || forb > 0 || failed > 0) && (hasBlock || hasFailing)
	return &stats.Case{Sig: stats.Sig(planSig(p.Hist), fmt.Sprint(p.Channels), fmt.Sprint(p.FailAt)), Nontrivial: nt, Classes: cl, Sample: p}, nil
}

var propC11 = Prop[*C11Plan]{
	ID:   "C11",
	Name: "TestC11",
	Gen: func(t *rapid.T) *C11Plan {
		// every 16th plan is a long one (70-200 headers) with a channel that never returns: a bounded pool of pending
		// deliveries must not stall ingestion or the other channels either
		long := 0.0
		if rapid.Uint32().Draw(t, "longplan")%16 == 7 { // (rapid's small-range draws lean towards 0: take low bits of a wide draw)
			long = 1
		}
		p := &C11Plan{Hist: hist.Gen(t, hist.GenOpts{MaxSpecs: quickThorough(20, 40), MinSpecs: 2, LongShare: long, LongMin: 70, LongMax: 200})}
		n := rapid.IntRange(2, 5).Draw(t, "nch")
		for i := 0; i < n; i++ {
			p.Channels = append(p.Channels, rapid.SampledFrom([]string{"ok", "ok", "slow", "block", "wsok", "wserr", "webhook", "webhook", "deadwebhook", "hungwebhook"}).Draw(t, "ch"))
		}
		if len(p.Hist.Specs) >= 64 {
			if rapid.Bool().Draw(t, "hungkind") {
				p.Channels[0] = "block"
			} else {
				p.Channels[0] = "hungwebhook"
			}
		}
		nf := rapid.IntRange(0, 2).Draw(t, "nfail")
		for i := 0; i < nf; i++ {
			p.FailAt = append(p.FailAt, rapid.IntRange(1, 30).Draw(t, "failat"))
		}
		return p
	},
	Run: runC11,
}

func TestC11(t *testing.T) {
	if propC11.replayEnv(t) {
		return
	}
	propC11.Check(t)
}

func TestC11Regress(t *testing.T) { propC11.Regress(t) }

// TestC11Concurrent: "exactly one ADD event per stored header" when the same header is delivered by several peers at the
// same time (the experimental engine calls Chains.Add from every peer's reader goroutine). The scenarios and the
// scheduler are C15's (harness-owned interleavings at repository-call granularity); here every plan has headers that all
// submitters deliver, and the oracle of interest is the one-event-per-stored-header rule.
var propC11Conc = Prop[*C15Plan]{
	ID:   "C11",
	Name: "TestC11Concurrent",
	Gen: func(t *rapid.T) *C15Plan {
		p := genC15(t)
		if len(p.Both) == 0 {
			p.Both = []int{rapid.IntRange(0, len(p.Hist.Specs)-1).Draw(t, "both1"), rapid.IntRange(0, len(p.Hist.Specs)-1).Draw(t, "both2")}
		}
		return p
	},
	Run: runC15,
}

func TestC11Concurrent(t *testing.T) {
	if propC11Conc.replayEnv(t) {
		return
	}
	propC11Conc.Check(t)
}
