package checks

import (
	"fmt"
	"math/bits"
	"path/filepath"
	"testing"

	"github.com/bitcoin-sv/block-headers-service/internal/chaincfg/chainhash"
	"github.com/bitcoin-sv/block-headers-service/verifharness/hist"
	"github.com/bitcoin-sv/block-headers-service/verifharness/model"
	"github.com/bitcoin-sv/block-headers-service/verifharness/stack"
	"github.com/bitcoin-sv/block-headers-service/verifharness/stats"
	"pgregory.net/rapid"
)

// GHQuery is a symbolic getheaders request.
type GHQuery struct {
	Loc      []int `json:"loc"`      // Order indices (mod len); negative = unknown hash
	StopKind int   `json:"stopKind"` // 0 zero, 1 longest (StopArg = height index), 2 stale, 3 orphan, 4 unknown, 5 genesis, 6 equal to start, 7 start+k ahead, 8 the StopArg-th header in arrival order
	StopArg  int   `json:"stopArg"`
}

// C13Plan = a store, its locator, and getheaders queries.
type C13Plan struct {
	Hist    *hist.Plan `json:"hist"`
	Queries []GHQuery  `json:"queries"`
	Sweep   bool       `json:"sweep,omitempty"` // small stores: every stored header as stop hash, repeatedly during the history
}

// checkLocator is the validity predicate of a block locator (not a transcription of the builder).
func checkLocator(t *model.Tree, loc []*chainhash.Hash) error {
	if len(loc) == 0 {
		return fmt.Errorf("empty locator")
	}
	var hs []int32
	for i, h := range loc {
		n := t.Nodes[[32]byte(*h)]
		if n == nil {
			return fmt.Errorf("locator entry %d (%s) is not a stored header", i, h)
		}
		if n.Label != model.Longest {
			return fmt.Errorf("locator entry %d (%s) is %s, not on the longest chain", i, h, n.Label)
		}
		hs = append(hs, n.Height)
	}
	if hs[0] != t.Best.Height || [32]byte(*loc[0]) != t.Best.Hash {
		return fmt.Errorf("locator starts at height %d, tip is %d", hs[0], t.Best.Height)
	}
	if hs[len(hs)-1] != 0 {
		return fmt.Errorf("locator ends at height %d, not at genesis", hs[len(hs)-1])
	}
	var gaps []int32
	for i := 1; i < len(hs); i++ {
		g := hs[i-1] - hs[i]
		if g <= 0 {
			return fmt.Errorf("locator heights not strictly descending: %v", hs)
		}
		gaps = append(gaps, g)
	}
	// gaps: a run of single steps, then every gap is double the previous one; only the last
	// gap may be shorter (clipped at genesis).
	if len(gaps) > 0 && gaps[0] != 1 {
		return fmt.Errorf("locator does not step back one block first: heights %v", hs)
	}
	m := 0
	for m < len(gaps) && gaps[m] == 1 {
		m++
	}
	for i := m; i < len(gaps); i++ {
		exp := 2 * gaps[i-1]
		if gaps[i] == exp || (i == len(gaps)-1 && gaps[i] < exp) {
			continue
		}
		return fmt.Errorf("locator gaps %v are not 'single steps, then doubling' (heights %v)", gaps, hs)
	}
	h := t.Best.Height
	if h < 1 {
		h = 1
	}
	bound := 13 + bits.Len32(uint32(h)) - 1
	if len(loc) > bound {
		return fmt.Errorf("locator has %d entries for height %d (bound %d)", len(loc), t.Best.Height, bound)
	}
	return nil
}

func resolveGH(t *model.Tree, q GHQuery) (loc []*chainhash.Hash, stop chainhash.Hash, start int32, stopNode *model.Node) {
	path := t.LongestPath()
	start = 0
	for _, i := range q.Loc {
		n, hs := nodeAt(t, i)
		var h chainhash.Hash
		if n != nil {
			h = chainhash.Hash(n.Hash)
			if n.Label == model.Longest && n.Height > start {
				start = n.Height
			}
		} else {
			b, _ := model.ParseHashStr(hs)
			h = chainhash.Hash(b)
		}
		loc = append(loc, &h)
	}
	pick := func(label string) *model.Node {
		l := t.ByLabel(label)
		if len(l) == 0 {
			return nil
		}
		return l[q.StopArg%len(l)]
	}
	switch q.StopKind {
	case 1:
		stopNode = path[q.StopArg%len(path)]
	case 2:
		stopNode = pick(model.Stale)
	case 3:
		stopNode = pick(model.Orphan)
	case 4:
		stop = chainhash.Hash(hist.UnknownParent(7000 + q.StopArg))
		return
	case 5:
		stopNode = t.Genesis
	case 6:
		stopNode = path[start]
	case 8:
		stopNode = t.Order[q.StopArg%len(t.Order)] // the StopArg-th header in arrival order, whatever its label is now
	case 7:
		k := int(start) + 1 + q.StopArg%5
		if k >= len(path) {
			k = len(path) - 1
		}
		stopNode = path[k]
	}
	if stopNode != nil {
		stop = chainhash.Hash(stopNode.Hash)
	}
	return
}

const ghCap = 2000

func evalGH(r *hist.Rig, q GHQuery) (nt bool, err error) {
	t := r.T
	loc, stop, start, stopNode := resolveGH(t, q)
	path := t.LongestPath()
	// model answer
	end := int(start) + ghCap
	nothing := false
	if stopNode != nil && stopNode.Label == model.Longest {
		if stopNode.Height <= start {
			nothing = true
		} else if int(stopNode.Height) < end {
			end = int(stopNode.Height)
		}
	}
	if end > len(path)-1 {
		end = len(path) - 1
	}
	var want []*model.Node
	if !nothing {
		for h := int(start) + 1; h <= end; h++ {
			want = append(want, path[h])
		}
	}
	got, gerr := r.S.Services.Headers.LocateHeadersGetHeaders(loc, &stop)
	got2 := r.S.Services.Headers.LocateHeaders(loc, &stop)
	if len(loc) == 0 {
		// accepted: nothing, or the chain from height 1
		if len(got) == 0 && len(got2) == 0 {
			return false, nil
		}
	}
	desc := fmt.Sprintf("getheaders(locator %d entries -> start %d, stopKind %d)", len(loc), start, q.StopKind)
	if len(got) != len(got2) {
		return false, fmt.Errorf("%s: LocateHeadersGetHeaders returned %d headers, LocateHeaders %d", desc, len(got), len(got2))
	}
	if len(want) == 0 {
		if len(got) != 0 {
			sh := int32(-1)
			if stopNode != nil {
				sh = stopNode.Height
			}
			return false, fmt.Errorf("%s: expected nothing (stop height %d at or below start %d, or nothing after start), got %d headers", desc, sh, start, len(got))
		}
	} else {
		if gerr != nil {
			return false, fmt.Errorf("%s: error %v, expected %d headers", desc, gerr, len(want))
		}
		if len(got) != len(want) {
			return false, fmt.Errorf("%s: got %d headers, expected %d (heights %d..%d)", desc, len(got), len(want), want[0].Height, want[len(want)-1].Height)
		}
		for i, h := range got {
			bh := h.BlockHash()
			if [32]byte(bh) != want[i].Hash {
				n := t.Nodes[[32]byte(bh)]
				lbl := "unknown"
				if n != nil {
					lbl = fmt.Sprintf("%s height %d", n.Label, n.Height)
				}
				return false, fmt.Errorf("%s: header %d is %s (%s), expected longest-chain header at height %d", desc, i, bh, lbl, want[i].Height)
			}
			if [32]byte(got2[i].BlockHash()) != want[i].Hash {
				return false, fmt.Errorf("%s: LocateHeaders header %d differs", desc, i)
			}
		}
	}
	hasStaleAhead := false
	seenLongest := false
	for _, h := range loc {
		n := t.Nodes[[32]byte(*h)]
		if n != nil && n.Label == model.Longest {
			seenLongest = true
		} else if !seenLongest {
			hasStaleAhead = true
		}
	}
	nt = (hasStaleAhead && seenLongest) || len(want) == ghCap || nothing
	return nt, nil
}

var c13Dir string

func runC13(p *C13Plan) (*stats.Case, error) {
	if c13Dir == "" {
		c13Dir = scratchDir("c13")
	}
	stack.RemoveDB(filepath.Join(c13Dir, "bhs.db"))
	r, err := hist.NewRig(c13Dir, p.Hist, stack.Options{})
	if err != nil {
		return nil, fmt.Errorf("infra: %w", err)
	}
	defer r.Close()
	locChecks, sweeps := 0, 0
	for step, idx := range p.Hist.Delivery {
		if idx < 0 || idx >= len(r.Headers) {
			continue
		}
		if _, _, err := r.Deliver(idx); err != nil {
			return nil, fmt.Errorf("step %d: %w", step, err)
		}
		if len(p.Hist.Delivery) <= 200 || step%97 == 0 || step == len(p.Hist.Delivery)-1 {
			if err := checkLocator(r.T, r.S.Services.Headers.LatestHeaderLocator()); err != nil {
				return nil, fmt.Errorf("after step %d (tip height %d): %w", step, r.T.Best.Height, err)
			}
			locChecks++
		}
		// "at any moment": on small stores the same requests are answered again and again while the tree grows and
		// reorganises - every stored header as stop hash, from genesis and from the first header on
		if len(p.Hist.Delivery) <= 40 && p.Sweep && (step%3 == 2 || step == len(p.Hist.Delivery)-1) {
			for k := range r.T.Order {
				for _, from := range []int{0, 1} {
					q := GHQuery{Loc: []int{from}, StopKind: 8, StopArg: k}
					if _, err := evalGH(r, q); err != nil {
						return nil, fmt.Errorf("after step %d, sweep query %+v: %w", step, q, err)
					}
					sweeps++
				}
			}
		}
	}
	ntq, capHit := 0, 0
	for i, q := range p.Queries {
		nt, err := evalGH(r, q)
		if err != nil {
			return nil, fmt.Errorf("query %d %+v: %w", i, q, err)
		}
		if nt {
			ntq++
		}
	}
	if r.T.Best.Height > ghCap {
		capHit = 1
	}
	cl := histClasses(p.Hist, r.T, 0, 0, 0)
	cl["locator_checks"] = int64(locChecks)
	cl["getheaders_queries"] = int64(len(p.Queries))
	cl["getheaders_sweep_queries_during_the_history"] = int64(sweeps)
	cl["nontrivial_queries"] = int64(ntq)
	cl["store_above_cap"] = int64(capHit)
	return &stats.Case{Sig: stats.Sig(planSig(p.Hist), fmt.Sprint(p.Queries)), Nontrivial: ntq > 0, Classes: cl, Sample: sampleC13(p)}, nil
}

// sampleC13 keeps evidence samples small for large stores.
func sampleC13(p *C13Plan) any {
	if len(p.Hist.Specs) <= 60 {
		return p
	}
	return map[string]any{"specs": len(p.Hist.Specs), "queries": p.Queries, "note": "large store; header specs elided"}
}

func genGHQueries(t *rapid.T, n int) []GHQuery {
	var qs []GHQuery
	for i := 0; i < n; i++ {
		q := GHQuery{}
		if rapid.IntRange(0, 4).Draw(t, "lowstart") == 0 {
			// a start near genesis (or none at all): the answer runs into the cap on long chains, whatever the stop
			q.Loc = []int{rapid.SampledFrom([]int{0, 1, 2, 5, 40, -1}).Draw(t, "low")}
			q.StopKind = rapid.SampledFrom([]int{0, 1, 1, 1, 4, 2}).Draw(t, "lsk")
			q.StopArg = rapid.IntRange(0, 6000).Draw(t, "lsa")
			qs = append(qs, q)
			continue
		}
		ln := rapid.IntRange(0, 8).Draw(t, "ln")
		for j := 0; j < ln; j++ {
			if rapid.IntRange(0, 7).Draw(t, "lu") == 0 {
				q.Loc = append(q.Loc, -1-rapid.IntRange(0, 5).Draw(t, "lun"))
			} else {
				q.Loc = append(q.Loc, rapid.IntRange(0, 3000).Draw(t, "li"))
			}
		}
		q.StopKind = rapid.SampledFrom([]int{0, 0, 0, 1, 1, 2, 3, 4, 5, 6, 7, 7}).Draw(t, "sk")
		q.StopArg = rapid.IntRange(0, 3000).Draw(t, "sa")
		qs = append(qs, q)
	}
	return qs
}

var propC13 = Prop[*C13Plan]{
	ID:   "C13",
	Name: "TestC13",
	Gen: func(t *rapid.T) *C13Plan {
		o := hist.GenOpts{MaxSpecs: quickThorough(60, 120), MinSpecs: 3, NoForbidden: true}
		h := hist.Gen(t, o)
		return &C13Plan{Hist: h, Sweep: rapid.Bool().Draw(t, "sweep"), Queries: genGHQueries(t, rapid.IntRange(20, quickThorough(60, 200)).Draw(t, "nq"))}
	},
	Run: runC13,
}

// propC13Large: chains above the 2000 cap with late forks.
var propC13Large = Prop[*C13Plan]{
	ID:   "C13",
	Name: "TestC13Large",
	Gen: func(t *rapid.T) *C13Plan {
		o := hist.GenOpts{NoForbidden: true, LongShare: 1, LongMin: 2050, LongMax: quickThorough(2300, 5000)}
		h := hist.Gen(t, o)
		return &C13Plan{Hist: h, Queries: genGHQueries(t, 60)}
	},
	Run: runC13,
}

func TestC13(t *testing.T) {
	if propC13.replayEnv(t) {
		return
	}
	propC13.Check(t)
}

func TestC13Large(t *testing.T) {
	if propC13Large.replayEnv(t) {
		return
	}
	propC13Large.Check(t)
}

func TestC13Regress(t *testing.T) { propC13.Regress(t) }
