package checks

import (
	"encoding/json"
	"fmt"
	"net/url"
	"path/filepath"
	"testing"

	"github.com/bitcoin-sv/block-headers-service/verifharness/hist"
	"github.com/bitcoin-sv/block-headers-service/verifharness/model"
	"github.com/bitcoin-sv/block-headers-service/verifharness/stack"
	"github.com/bitcoin-sv/block-headers-service/verifharness/stats"
	"pgregory.net/rapid"
)

// C08Plan: a store with pairwise distinct merkle roots, complete walks for every
// batch size, and one walk interleaved with tip extensions.
type C08Plan struct {
	Hist       *hist.Plan `json:"hist"`
	ExtBatch   int        `json:"extBatch"`   // batch size of the interleaved walk (>=1)
	Extensions []int      `json:"extensions"` // number of new tip headers ingested after page i of that walk
	ReorgBatch int        `json:"reorgBatch"` // final step: batch size of the page whose key is made stale by a reorganisation
	ReorgDepth int        `json:"reorgDepth"` // ... and how far below the key's height the overtaking header forks
	MaxBatch   int        `json:"maxBatch"`   // 0 = all batch sizes 1..L+2; otherwise sample up to this many sizes (long chains)
}

type pageResp struct {
	Content []struct {
		MerkleRoot  string `json:"merkleRoot"`
		BlockHeight int32  `json:"blockHeight"`
	} `json:"content"`
	Page struct {
		TotalElements    int32  `json:"totalElements"`
		Size             int    `json:"size"`
		LastEvaluatedKey string `json:"lastEvaluatedKey"`
	} `json:"page"`
}

func getPage(r *hist.Rig, batch string, key string) (stack.Response, *pageResp, error) {
	q := url.Values{}
	if batch != "" {
		q.Set("batchSize", batch)
	}
	if key != "" {
		q.Set("lastEvaluatedKey", key)
	}
	resp := r.S.Get("/api/v1/chain/merkleroot?" + q.Encode())
	if resp.Code != 200 {
		return resp, nil, nil
	}
	var pr pageResp
	if err := json.Unmarshal(resp.Body, &pr); err != nil {
		return resp, nil, fmt.Errorf("merkleroot page: bad JSON %s", resp.Body)
	}
	return resp, &pr, nil
}

// walk pages through the listing with batch size b; after page i, ext(i) may ingest new tips.
func walk(r *hist.Rig, b int, ext func(page int) error) (pages int, err error) {
	key := ""
	next := int32(0) // next expected height
	for {
		tipBefore := r.T.Best
		resp, pr, err := getPage(r, fmt.Sprint(b), key)
		if err != nil {
			return pages, err
		}
		if pr == nil {
			return pages, fmt.Errorf("walk b=%d page %d key %q: status %d body %s", b, pages, key, resp.Code, resp.Body)
		}
		pages++
		if len(pr.Content) > b {
			return pages, fmt.Errorf("walk b=%d: page %d has %d entries", b, pages, len(pr.Content))
		}
		if pr.Page.Size != len(pr.Content) {
			return pages, fmt.Errorf("walk b=%d: page.size %d but %d entries", b, pr.Page.Size, len(pr.Content))
		}
		path := r.T.LongestPath()
		for _, e := range pr.Content {
			if e.BlockHeight != next {
				return pages, fmt.Errorf("walk b=%d page %d: got height %d, expected %d (each longest-chain height exactly once, ascending)", b, pages, e.BlockHeight, next)
			}
			if int(next) >= len(path) || model.HashStr(path[next].H.Merkle) != e.MerkleRoot {
				return pages, fmt.Errorf("walk b=%d page %d: height %d has root %s, not the longest-chain root", b, pages, e.BlockHeight, e.MerkleRoot)
			}
			next++
		}
		atTip := next == tipBefore.Height+1
		if len(pr.Content) == 0 || atTip {
			if pr.Page.LastEvaluatedKey != "" {
				return pages, fmt.Errorf("walk b=%d page %d: reached the tip (height %d) or empty page but lastEvaluatedKey=%q", b, pages, tipBefore.Height, pr.Page.LastEvaluatedKey)
			}
		} else {
			last := pr.Content[len(pr.Content)-1].MerkleRoot
			if pr.Page.LastEvaluatedKey != last {
				return pages, fmt.Errorf("walk b=%d page %d: more data remains (next height %d, tip %d) but lastEvaluatedKey=%q, last root %q", b, pages, next, tipBefore.Height, pr.Page.LastEvaluatedKey, last)
			}
		}
		if pr.Page.LastEvaluatedKey == "" {
			break
		}
		key = pr.Page.LastEvaluatedKey
		if ext != nil {
			if err := ext(pages - 1); err != nil {
				return pages, err
			}
		}
		if pages > len(r.T.Order)+10 {
			return pages, fmt.Errorf("walk b=%d does not terminate (%d pages)", b, pages)
		}
	}
	// the walk ended: everything up to the tip at the time of the last page was listed
	if next != r.T.Best.Height+1 {
		return pages, fmt.Errorf("walk b=%d ended after height %d but the tip is at %d", b, next-1, r.T.Best.Height)
	}
	return pages, nil
}

var c08Dir string

func runC08(p *C08Plan) (*stats.Case, error) {
	if c08Dir == "" {
		c08Dir = scratchDir("c08")
	}
	stack.RemoveDB(filepath.Join(c08Dir, "bhs.db"))
	r, err := hist.NewRig(c08Dir, p.Hist, stack.Options{})
	if err != nil {
		return nil, fmt.Errorf("infra: %w", err)
	}
	defer r.Close()
	for step, idx := range p.Hist.Delivery {
		if idx < 0 || idx >= len(r.Headers) {
			continue
		}
		if _, _, err := r.Deliver(idx); err != nil {
			return nil, fmt.Errorf("step %d: %w", step, err)
		}
	}
	L := int(r.T.Best.Height) + 1
	staleSibling := false
	longestAt := map[int32]bool{}
	for _, n := range r.T.LongestPath() {
		longestAt[n.Height] = true
	}
	for _, n := range r.T.Order {
		if n.Label == model.Stale && longestAt[n.Height] {
			staleSibling = true
		}
	}
	maxPages := 0
	sizes := []int{}
	if p.MaxBatch == 0 || L+2 <= p.MaxBatch {
		for b := 1; b <= L+2; b++ {
			sizes = append(sizes, b)
		}
	} else {
		sizes = []int{1, 2, 3, L / 2, L - 1, L, L + 1, L + 2, 2000}
		for k := 0; len(sizes) < p.MaxBatch; k++ {
			sizes = append(sizes, 4+k*(L/p.MaxBatch+1))
		}
	}
	for _, b := range sizes {
		if b < 1 {
			continue
		}
		pg, err := walk(r, b, nil)
		if err != nil {
			return nil, err
		}
		if pg > maxPages {
			maxPages = pg
		}
	}
	// default batch size (no parameter) behaves like 2000
	if resp, pr, err := getPage(r, "", ""); err != nil || pr == nil || len(pr.Content) != min(L, 2000) {
		return nil, fmt.Errorf("default page: status %d err %v", resp.Code, err)
	}
	// batch size 0: well-formed empty page
	if resp, pr, err := getPage(r, "0", ""); err != nil || pr == nil || len(pr.Content) != 0 || pr.Page.LastEvaluatedKey != "" {
		return nil, fmt.Errorf("batchSize=0: status %d body %s err %v, expected a well-formed empty page", resp.Code, resp.Body, err)
	}
	// every stored root and unknown strings as start keys
	for _, n := range r.T.Order {
		root := model.HashStr(n.H.Merkle)
		resp, pr, err := getPage(r, "3", root)
		if err != nil {
			return nil, err
		}
		switch n.Label {
		case model.Longest:
			if pr == nil {
				return nil, fmt.Errorf("start key = longest root at height %d: status %d body %s", n.Height, resp.Code, resp.Body)
			}
			path := r.T.LongestPath()
			for i, e := range pr.Content {
				h := n.Height + 1 + int32(i)
				if e.BlockHeight != h || int(h) >= len(path) || e.MerkleRoot != model.HashStr(path[h].H.Merkle) {
					return nil, fmt.Errorf("start key = longest root at height %d: entry %d is height %d root %s", n.Height, i, e.BlockHeight, e.MerkleRoot)
				}
			}
			want := min(3, len(path)-1-int(n.Height))
			if len(pr.Content) != want {
				return nil, fmt.Errorf("start key = longest root at height %d (tip %d): %d entries, expected %d", n.Height, r.T.Best.Height, len(pr.Content), want)
			}
		default:
			if resp.Code != 409 || !isStructured4xx(resp) {
				return nil, fmt.Errorf("start key = root of a %s header: status %d body %s, expected a 409 conflict error", n.Label, resp.Code, resp.Body)
			}
		}
	}
	for _, k := range []string{model.HashStr(hist.MerkleOf(0xfeedbeef)), "nothex", "00"} {
		resp, _, _ := getPage(r, "3", k)
		if resp.Code != 404 || !isStructured4xx(resp) {
			return nil, fmt.Errorf("start key %q (unknown): status %d body %s, expected a 404 not-found error", k, resp.Code, resp.Body)
		}
	}
	// interleaved walk: new tips between pages (no reorg)
	extCount := 0
	ext := func(page int) error {
		if page >= len(p.Extensions) {
			return nil
		}
		for k := 0; k < p.Extensions[page]; k++ {
			extCount++
			h := model.Header{Version: 1, Prev: r.T.Best.Hash, Merkle: hist.MerkleOf(uint64(1_000_000 + extCount)), Timestamp: 1600000000 + uint32(extCount), Bits: 0x1d00ffff, Nonce: uint32(extCount)}
			res := r.Add(h)
			out, _ := r.T.Submit(h)
			if res.Class != "stored" || out != model.Stored {
				return fmt.Errorf("extension failed: %v %v", res.Class, res.Err)
			}
		}
		return nil
	}
	b := p.ExtBatch
	if b < 1 {
		b = 1
	}
	pg, err := walk(r, b, ext)
	if err != nil {
		return nil, fmt.Errorf("interleaved %w", err)
	}
	if pg > maxPages {
		maxPages = pg
	}
	// a reorganisation between two pages: the key handed out with a page belongs to a header that is STALE by the time
	// the client comes back with it => 409, as for any other stale key (and the continuation, had the key stayed on the
	// longest chain, as usual)
	reorgBetween := false
	if path := r.T.LongestPath(); len(path) >= 3 {
		rb := 2 + p.ReorgBatch%(len(path)-2) // 2..len-1: the page ends at height >= 1 and below the tip
		_, pr, err := getPage(r, fmt.Sprint(rb), "")
		if err != nil || pr == nil || pr.Page.LastEvaluatedKey == "" {
			return nil, fmt.Errorf("reorg step: first page with batch %d of a chain of %d: %v %+v", rb, len(path), err, pr)
		}
		key := pr.Page.LastEvaluatedKey
		keyHeight := pr.Content[len(pr.Content)-1].BlockHeight
		// a much heavier header forking below the key's height overtakes the chain
		forkParent := path[int(keyHeight)-1-p.ReorgDepth%int(keyHeight)]
		h := model.Header{Version: 1, Prev: forkParent.Hash, Merkle: hist.MerkleOf(2_000_000), Timestamp: 1700000000, Bits: 0x1800ffff, Nonce: 7}
		res := r.Add(h)
		out, _ := r.T.Submit(h)
		if res.Class != "stored" || out != model.Stored {
			return nil, fmt.Errorf("reorg step: the forking header was not stored: %v %v", res.Class, res.Err)
		}
		keyNowStale := true
		for _, n := range r.T.LongestPath() {
			if model.HashStr(n.H.Merkle) == key {
				keyNowStale = false
			}
		}
		resp, pr2, err := getPage(r, "3", key)
		if err != nil {
			return nil, err
		}
		if keyNowStale {
			reorgBetween = true
			if resp.Code != 409 || !isStructured4xx(resp) {
				return nil, fmt.Errorf("a reorganisation made the header of the last page's key (height %d) STALE; continuing with that key answered %d %s, expected a 409 conflict error", keyHeight, resp.Code, resp.Body)
			}
		} else if pr2 == nil {
			return nil, fmt.Errorf("reorg step: key still on the longest chain but the continuation answered %d %s", resp.Code, resp.Body)
		}
		// and complete walks of the new longest chain still work
		if _, err := walk(r, 2, nil); err != nil {
			return nil, fmt.Errorf("after the reorganisation: %w", err)
		}
	}
	cl := histClasses(p.Hist, r.T, 0, 0, 0)
	cl["with_reorg_between_pages"] = b2i(reorgBetween)
	cl["walks"] = int64(len(sizes) + 1)
	cl["with_stale_sibling_at_listed_height"] = b2i(staleSibling)
	cl["with_walk_ge3_pages"] = b2i(maxPages >= 3)
	cl["with_extension_during_walk"] = b2i(extCount > 0)
	nt := staleSibling && maxPages >= 3
	return &stats.Case{Sig: stats.Sig(planSig(p.Hist), p.ExtBatch, fmt.Sprint(p.Extensions)), Nontrivial: nt, Classes: cl, Sample: p}, nil
}

var propC08 = Prop[*C08Plan]{
	ID:   "C08",
	Name: "TestC08",
	Gen: func(t *rapid.T) *C08Plan {
		o := hist.GenOpts{MaxSpecs: quickThorough(20, 40), MinSpecs: 2, NoForbidden: true, DistinctMerkle: true}
		p := &C08Plan{}
		if stats.Thorough() && rapid.IntRange(0, 199).Draw(t, "big") == 0 {
			o.LongShare, o.LongMin, o.LongMax = 1, 2050, 2500
			p.MaxBatch = 12
		}
		p.Hist = hist.Gen(t, o)
		p.ExtBatch = rapid.IntRange(1, 5).Draw(t, "extb")
		p.ReorgBatch = rapid.IntRange(0, 40).Draw(t, "reorgb")
		p.ReorgDepth = rapid.IntRange(0, 5).Draw(t, "reorgd")
		n := rapid.IntRange(0, 4).Draw(t, "next")
		for i := 0; i < n; i++ {
			p.Extensions = append(p.Extensions, rapid.IntRange(0, 3).Draw(t, "ext"))
		}
		return p
	},
	Run: runC08,
}

func TestC08(t *testing.T) {
	if propC08.replayEnv(t) {
		return
	}
	propC08.Check(t)
}

func TestC08Regress(t *testing.T) { propC08.Regress(t) }
