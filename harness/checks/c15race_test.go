package checks

import (
	"fmt"
	"github.com/bitcoin-sv/block-headers-service/service"
	"net"
	"os"
	"path/filepath"
	"strings"
	"sync"
	"sync/atomic"
	"testing"
	"time"

	"github.com/bitcoin-sv/block-headers-service/verifharness/simnet"
	"github.com/bitcoin-sv/block-headers-service/verifharness/stack"
	"github.com/bitcoin-sv/block-headers-service/verifharness/stats"
	"pgregory.net/rapid"
)

// C15RacePlan: a free-running scenario executed under the race detector.
type C15RacePlan struct {
	Engine       string `json:"engine"` // legacy | exp
	HonestLen    int    `json:"honestLen"`
	Nodes        int    `json:"nodes"` // legacy: 2-4 nodes delivering concurrently; exp: outbound + inbound
	Cap          int    `json:"cap"`
	Readers      int    `json:"readers"`      // HTTP reader goroutines
	PeerEndpoint bool   `json:"peerEndpoint"` // readers also call GET /network/peer and /network/peer/count (open finding when true)
	Churn        bool   `json:"churn"`        // nodes drop connections during the sync
	Events       int    `json:"events"`       // announcements after the sync
	KnownPass    bool   `json:"knownPass"`    // finding pass: races matching an open finding are reported as KNOWN-FINDING
	// Malformed: the last node sends one well-framed but truncated ping on its first connection (a decode error on one
	// peer's reader must not disturb the codec state other goroutines share)
	Malformed bool `json:"malformed,omitempty"`
}

func raceLogs() []string {
	var lp string
	for _, f := range strings.Fields(os.Getenv("GORACE")) {
		if strings.HasPrefix(f, "log_path=") {
			lp = strings.TrimPrefix(f, "log_path=")
		}
	}
	if lp == "" {
		return nil
	}
	files, _ := filepath.Glob(lp + ".*")
	return files
}

func raceReportBytes() int {
	n := 0
	for _, f := range raceLogs() {
		if st, err := os.Stat(f); err == nil {
			n += int(st.Size())
		}
	}
	return n
}

func runC15Race(p *C15RacePlan) (*stats.Case, error) {
	before := raceReportBytes()
	cp := p.HonestLen / 2
	if cp < 1 {
		cp = 1
	}
	plan := &C06Plan{Engine: p.Engine, HonestLen: p.HonestLen, Checkpoints: []int{cp}, Initial: "genesis"}
	n := p.Nodes
	if p.Engine == "exp" {
		n = 2
		plan.ExpInbound = true
	}
	for i := 0; i < n; i++ {
		nd := C06Node{Branch: -1}
		nd.Spec.Pver = []uint32{70015, 70011, 70016, 70013}[i%4]
		nd.Spec.Cap = p.Cap
		if p.Churn && i > 0 {
			nd.Spec.CloseAt = 2 + i
			nd.Spec.CloseAfter = i%2 == 0
		}
		if p.Malformed && i == n-1 && n > 1 {
			nd.Spec.TruncatedPing = true
		}
		plan.Nodes = append(plan.Nodes, nd)
	}
	// notification delivery takes part in the scenario: the notifier channels as in main() and three webhooks with
	// different authorisation settings (every stored header starts one delivery goroutine per channel)
	whc := &scriptedClient{next: func() int { return 0 }}
	var whErr error
	sc, err := buildScenario(plan, stack.Options{WebhookClient: whc, WrapServices: func(sv *service.Services) {
		// as in main(): channels and webhooks exist before the P2P engine starts
		sv.Notifier.AddChannel(sv.Webhooks)
		for i, w := range [][3]string{{"bearer", "", "tok-one"}, {"custom_header", "X-Api-Key", "key-two"}, {"", "", ""}} {
			if _, err := sv.Webhooks.CreateWebhook(w[0], w[1], w[2], fmt.Sprintf("http://hook.invalid/race/%d", i)); err != nil {
				whErr = err
			}
		}
	}})
	if sc != nil {
		defer sc.close()
	}
	if err != nil {
		return nil, err
	}
	if whErr != nil {
		return nil, fmt.Errorf("infra: %w", whErr)
	}
	var stop atomic.Bool
	var reads atomic.Int64
	var wg sync.WaitGroup
	var rmu sync.Mutex
	var rerr error
	paths := []string{"/api/v1/chain/tip", "/api/v1/chain/tip/longest", "/api/v1/chain/header/byHeight?height=1&count=3", "/api/v1/chain/merkleroot?batchSize=5"}
	if p.PeerEndpoint {
		paths = append(paths, "/api/v1/network/peer", "/api/v1/network/peer/count")
	}
	for r := 0; r < p.Readers; r++ {
		wg.Add(1)
		go func(r int) {
			defer wg.Done()
			for i := 0; !stop.Load(); i++ {
				resp, pan := sc.s.Do("GET", paths[(i+r)%len(paths)], nil, nil)
				reads.Add(1)
				if pan != nil || resp.Code >= 500 {
					rmu.Lock()
					if rerr == nil {
						rerr = fmt.Errorf("reader: GET %s answered %d (panic %v) during sync", paths[(i+r)%len(paths)], resp.Code, pan)
					}
					rmu.Unlock()
				}
				time.Sleep(200 * time.Microsecond)
			}
		}(r)
	}
	target := sc.honest
	tipIs := func() bool { return sc.tipHash() == target[len(target)-1].Hash.String() }
	simnet.WaitQuiescent(sc.nodes, tipIs, 100*time.Millisecond, 12*time.Second)
	for e := 0; e < p.Events; e++ {
		ext := sc.u.Extend(target, 1, 0, 0x1d00ffff)
		for _, nd := range sc.nodes {
			nd.MineWhenReady(ext[len(target):], true, 3*time.Second) // all nodes announce the same block concurrently
		}
		target = ext
		simnet.WaitQuiescent(sc.nodes, tipIs, 100*time.Millisecond, 6*time.Second)
	}
	converged := tipIs()
	stop.Store(true)
	wg.Wait()
	if rerr != nil {
		return nil, rerr
	}
	rows, _ := sc.s.Headers()
	if err := checkStructure(rows); err != nil {
		return nil, fmt.Errorf("after concurrent delivery: %w", err)
	}
	if after := raceReportBytes(); after > before {
		// the race detector reported something during this scenario: the driver classifies the report
		// the detector may still be writing the report: read until the logs have not grown for 300 ms
		for prev := -1; prev != raceReportBytes(); {
			prev = raceReportBytes()
			time.Sleep(300 * time.Millisecond)
		}
		rep := ""
		for _, f := range raceLogs() {
			if b, err := os.ReadFile(f); err == nil {
				rep += string(b)
			}
		}
		if u := firstUnknownRace(rep); !onlyKnownRaces(rep) && !strings.Contains(raceAppFrames(u), "block-headers-service/") {
			// both accesses lie in the harness itself: a defect of the machinery, never a violation of the property
			return nil, fmt.Errorf("infra: data race inside the harness: %s", raceSummary(u))
		}
		if !p.KnownPass || !onlyKnownRaces(rep) {
			return nil, fmt.Errorf("DATA RACE reported by the race detector during the scenario: %s", raceSummary(firstUnknownRace(rep)))
		}
		for _, b := range splitRaces(rep) {
			if kf := openFinding(knownRaceID(b)); kf != nil {
				stats.AddKnown(fmt.Sprintf("KNOWN-FINDING: property=C15 %s (%s)", kf.What, kf.ID))
			}
		}
	}
	cl := map[string]int64{"race_scenarios": 1, "engine_" + p.Engine: 1, "reads_during_sync": reads.Load(), "converged": b2i(converged), "with_churn": b2i(p.Churn)}
	nt := n >= 2 && reads.Load() >= 100
	return &stats.Case{Sig: stats.Sig(fmt.Sprintf("%+v", *p)), Nontrivial: nt, Classes: cl, Sample: p}, nil
}

// knownRaceID classifies a race report by its application frames ("" = not a known finding):
//   - the peers map shared by NetworkService (HTTP goroutines) and the sync manager goroutine
//   - the experimental peer's unsynchronised quitting/quit state around Disconnect
func knownRaceID(block string) string {
	switch {
	case (strings.Contains(block, "NetworkService).GetPeers") || strings.Contains(block, "NetworkService).GetPeersCount")) && strings.Contains(block, "p2psync.(*SyncManager)"):
		return "C15-peers-map-race"
	case strings.Contains(block, "internal/transports/p2p/peer.(*Peer).Disconnect") && openFinding("C15-experimental-peer-disconnect-unsynchronised") != nil:
		return "C15-experimental-peer-disconnect-unsynchronised"
	}
	return ""
}

// raceAppFrames returns the frames of the two ACCESS stacks (not the goroutine creation stacks) that belong to the
// service's own packages.
func raceAppFrames(block string) string {
	var out []string
	access := false
	for _, l := range strings.Split(block, "\n") {
		t := strings.TrimSpace(l)
		switch {
		case strings.HasPrefix(t, "Read at") || strings.HasPrefix(t, "Write at") || strings.HasPrefix(t, "Previous read") || strings.HasPrefix(t, "Previous write"):
			access = true
		case strings.HasPrefix(t, "Goroutine "):
			access = false
		case access && strings.Contains(t, "bitcoin-sv/block-headers-service/") && !strings.Contains(t, "/verifharness/"):
			out = append(out, t)
		}
	}
	return strings.Join(out, "\n")
}

// raceSummary puts the two access stacks of a race report on one line (application frames only).
func raceSummary(block string) string {
	var parts []string
	cur := ""
	n := 0
	for _, l := range strings.Split(block, "\n") {
		t := strings.TrimSpace(l)
		switch {
		case strings.HasPrefix(t, "Read at") || strings.HasPrefix(t, "Write at") || strings.HasPrefix(t, "Previous read") || strings.HasPrefix(t, "Previous write") || strings.HasPrefix(t, "Goroutine "):
			if cur != "" {
				parts = append(parts, cur)
			}
			cur, n = strings.SplitN(t, " at 0x", 2)[0]+":", 0
			if strings.HasPrefix(t, "Goroutine ") {
				cur = "created:"
			}
		case strings.Contains(t, "block-headers-service/") && strings.HasSuffix(t, ")") && n < 5:
			f := t[strings.LastIndex(t, "block-headers-service/")+len("block-headers-service/"):]
			cur += " " + f
			n++
		}
	}
	if cur != "" {
		parts = append(parts, cur)
	}
	if len(parts) > 4 {
		parts = parts[:4]
	}
	out := strings.Join(parts, " | ")
	if len(out) > 1500 {
		out = out[:1500]
	}
	return out
}

func knownRace(block string) bool {
	id := knownRaceID(block)
	return id != "" && openFinding(id) != nil
}

func splitRaces(rep string) []string {
	parts := strings.Split(rep, "WARNING: DATA RACE")
	var out []string
	for _, p := range parts[1:] {
		out = append(out, "WARNING: DATA RACE"+p)
	}
	return out
}

func onlyKnownRaces(rep string) bool {
	for _, b := range splitRaces(rep) {
		if !knownRace(b) {
			return false
		}
	}
	return true
}

func firstUnknownRace(rep string) string {
	for _, b := range splitRaces(rep) {
		if !knownRace(b) {
			return b
		}
	}
	return rep
}

var propC15Race = Prop[*C15RacePlan]{
	ID:   "C15",
	Name: "TestC15Race",
	Gen: func(t *rapid.T) *C15RacePlan {
		return &C15RacePlan{Engine: "legacy", HonestLen: rapid.IntRange(20, 150).Draw(t, "len"),
			Nodes: rapid.IntRange(2, 4).Draw(t, "nodes"), Cap: rapid.SampledFrom([]int{3, 10, 50, 2000}).Draw(t, "cap"), Readers: rapid.IntRange(1, 4).Draw(t, "readers"),
			Churn: rapid.Bool().Draw(t, "churn"), Events: rapid.IntRange(0, 3).Draw(t, "events"), Malformed: rapid.Bool().Draw(t, "malformed")}
	},
	Run: runC15Race,
}

func TestC15Race(t *testing.T) {
	if propC15Race.replayEnv(t) {
		return
	}
	propC15Race.Check(t)
}

// TestC15RaceKnown is the finding pass: (1) the legacy scenario with GET /network/peer in the readers' mix (peers map race),
// (2) the experimental engine with an outbound and an inbound peer (unsynchronised Disconnect state).
// The race detector marks this test as failed when it reports; the driver only looks at the recorded violations.
func TestC15RaceKnown(t *testing.T) {
	stats.Setup("C15", "TestC15RaceKnown")
	for _, p := range []*C15RacePlan{
		{Engine: "legacy", HonestLen: 60, Nodes: 3, Cap: 5, Readers: 3, PeerEndpoint: true, Churn: true, Events: 1, KnownPass: true},
		{Engine: "exp", HonestLen: 40, Nodes: 2, Cap: 5, Readers: 2, Events: 1, KnownPass: true},
	} {
		if _, err := safeRun(runC15Race, p); err != nil && !strings.HasPrefix(err.Error(), "infra:") {
			path := filepath.Join(violDir("C15"), fmt.Sprintf("viol-TestC15RaceKnown-%s.json", p.Engine))
			writeReplay(path, "C15", "TestC15Race", p, firstLine(err.Error()))
			stats.AddViolation(stats.Violation{Property: "C15", Replay: path, Message: firstLine(err.Error())})
			t.Errorf("%v", err)
		}
	}
}

var _ = net.IPv4
