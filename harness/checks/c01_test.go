package checks

import (
	"encoding/json"
	"fmt"
	"os"
	"path/filepath"
	"strings"
	"testing"

	"github.com/bitcoin-sv/block-headers-service/verifharness/hist"
	"github.com/bitcoin-sv/block-headers-service/verifharness/model"
	"github.com/bitcoin-sv/block-headers-service/verifharness/stack"
	"github.com/bitcoin-sv/block-headers-service/verifharness/stats"
	"pgregory.net/rapid"
)

// scratchDir returns a per-process scratch directory for a property.
func scratchDir(name string) string {
	return stack.Scratch(fmt.Sprintf("%s-%d-%d", name, stats.Shard(), os.Getpid()))
}

var c01Dir string

func c01Scratch() string {
	if c01Dir == "" {
		c01Dir = scratchDir("c01")
	}
	return c01Dir
}

// histClasses computes the class histogram of an executed plan.
func histClasses(p *hist.Plan, t *model.Tree, dups, forb, inversions int) map[string]int64 {
	c := map[string]int64{"plans": 1, "headers_delivered": int64(len(p.Delivery))}
	b := func(name string, cond bool) {
		if cond {
			c[name] = 1
		}
	}
	forks := 0
	for _, n := range t.Order {
		if len(n.Children) > 1 {
			forks++
		}
	}
	orphans := len(t.ByLabel(model.Orphan))
	zero := 0
	for _, n := range t.Order {
		if n.Work.Sign() == 0 {
			zero++
		}
	}
	b("with_fork", forks > 0)
	b("with_reorg", t.Reorgs > 0)
	b("with_reorg_depth_ge2", t.MaxReorg >= 2)
	b("with_tie", t.Ties > 0)
	b("with_orphan", orphans > 0)
	b("with_zero_work", zero > 0)
	b("with_duplicate", dups > 0)
	b("with_forbidden", forb > 0)
	b("with_inversion", inversions > 0)
	b("len_ge_100", len(p.Specs) >= 100)
	return c
}

func planSig(p *hist.Plan) uint64 {
	parts := []any{}
	for _, s := range p.Specs {
		parts = append(parts, s.Parent, s.Bits)
	}
	parts = append(parts, "|")
	for _, d := range p.Delivery {
		parts = append(parts, d)
	}
	parts = append(parts, "|")
	for _, d := range p.Forbidden {
		parts = append(parts, d)
	}
	return stats.Sig(parts...)
}

// runC01 executes a history on the real stack and compares with the model after every delivery.
func runC01(p *hist.Plan) (*stats.Case, error) {
	dir := c01Scratch()
	stack.RemoveDB(filepath.Join(dir, "bhs.db"))
	r, err := hist.NewRig(dir, p, stack.Options{})
	if err != nil {
		return nil, fmt.Errorf("infra: %w", err)
	}
	defer r.Close()
	return execC01(r, p, len(p.Specs) <= 40)
}

type tipResp struct {
	Header struct {
		Hash string `json:"hash"`
	} `json:"header"`
	State  string `json:"state"`
	Height int32  `json:"height"`
}

func execC01(r *hist.Rig, p *hist.Plan, everyStep bool) (*stats.Case, error) {
	dups, forb, inversions := 0, 0, 0
	delivered := map[int]bool{}
	for step, idx := range p.Delivery {
		if idx < 0 || idx >= len(r.Headers) {
			continue
		}
		if pi := p.Specs[idx].Parent; pi >= 0 && !delivered[pi] {
			inversions++
		}
		var before string
		_, isDup := r.T.Nodes[r.Hashes[idx]]
		if isDup {
			before, _ = r.S.Digest()
		}
		out, _, err := r.Deliver(idx)
		if err != nil {
			return nil, fmt.Errorf("step %d: %w", step, err)
		}
		delivered[idx] = true
		switch out {
		case model.Duplicate:
			dups++
			after, _ := r.S.Digest()
			if before != after {
				return nil, fmt.Errorf("step %d: re-submitting known header %s changed the store", step, model.HashStr(r.Hashes[idx]))
			}
		case model.Forbidden:
			forb++
		}
		if everyStep || step%25 == 24 || step == len(p.Delivery)-1 {
			if err := r.CompareTable(false); err != nil {
				return nil, fmt.Errorf("after step %d (spec %d): %w", step, idx, err)
			}
		}
		if err := r.CheckTip(); err != nil {
			return nil, fmt.Errorf("after step %d (spec %d): %w", step, idx, err)
		}
	}
	// HTTP view at the end
	resp := r.S.Get("/api/v1/chain/tip/longest")
	var tr tipResp
	if resp.Code != 200 || json.Unmarshal(resp.Body, &tr) != nil {
		return nil, fmt.Errorf("GET tip/longest: status %d body %s", resp.Code, resp.Body)
	}
	if tr.Header.Hash != r.T.Best.HashStr || tr.State != model.Longest || tr.Height != r.T.Best.Height {
		return nil, fmt.Errorf("GET tip/longest = %s/%s/%d, model best %s height %d", tr.Header.Hash, tr.State, tr.Height, r.T.Best.HashStr, r.T.Best.Height)
	}
	limit := 60
	for i, n := range r.T.Order {
		if i >= limit {
			break
		}
		resp := r.S.Get("/api/v1/chain/header/state/" + n.HashStr)
		var sr tipResp
		if resp.Code != 200 || json.Unmarshal(resp.Body, &sr) != nil {
			return nil, fmt.Errorf("GET header/state/%s: status %d body %s", n.HashStr, resp.Code, resp.Body)
		}
		if sr.State != n.Label || sr.Height != n.Height || sr.Header.Hash != n.HashStr {
			return nil, fmt.Errorf("GET header/state/%s = %s height %d, model %s height %d", n.HashStr, sr.State, sr.Height, n.Label, n.Height)
		}
	}
	for _, f := range p.Forbidden {
		if f >= 0 && f < len(r.Hashes) {
			if resp := r.S.Get("/api/v1/chain/header/state/" + model.HashStr(r.Hashes[f])); resp.Code == 200 {
				return nil, fmt.Errorf("forbidden header %s is served", model.HashStr(r.Hashes[f]))
			}
		}
	}
	cl := histClasses(p, r.T, dups, forb, inversions)
	forks := cl["with_fork"] > 0
	nt := forks && (r.T.Reorgs > 0 || r.T.Ties > 0 || cl["with_orphan"] > 0 || dups > 0)
	return &stats.Case{Sig: planSig(p), Nontrivial: nt, Classes: cl, Sample: p}, nil
}

// c01Known recognises known findings of C01 (none open at present).
func c01Known(p *hist.Plan, err error) string {
	_ = strings.Contains
	return ""
}

var propC01 = Prop[*hist.Plan]{
	ID:   "C01",
	Name: "TestC01",
	Gen: func(t *rapid.T) *hist.Plan {
		o := hist.GenOpts{MaxSpecs: 24}
		o.NoZeroWork = os.Getenv("VERIF_DEV_NOZERO") != ""
		if stats.Thorough() {
			o.MaxSpecs = 80
			o.LongShare, o.LongMin, o.LongMax = 0.02, 150, 400
		}
		return hist.Gen(t, o)
	},
	Run:   runC01,
	Known: c01Known,
}

func TestC01(t *testing.T) {
	if propC01.replayEnv(t) {
		return
	}
	propC01.Check(t)
}

func TestC01Regress(t *testing.T) { propC01.Regress(t) }

// TestC01Exhaustive enumerates every (parent assignment x delivery permutation x bits in {A,B})
// for N <= 3 (quick) or N <= 4 (thorough) headers; parents range over genesis, earlier specs and
// one unknown hash. The database file is reused and wiped by raw SQL between plans.
func TestC01Exhaustive(t *testing.T) {
	stats.Setup("C01", "TestC01Exhaustive")
	maxN := quickThorough(3, 4)
	dir := scratchDir("c01x")
	s, err := stack.New(stack.Options{Dir: dir})
	if err != nil {
		t.Fatalf("infra: %v", err)
	}
	defer s.Close()
	bitsAB := []uint32{0x1d00ffff, 0x1c00ffff}
	count := 0
	shard, nshards := stats.Shard(), stats.NShards()
	prop := propC01
	prop.Name = "TestC01Exhaustive"
	prop.Run = func(p *hist.Plan) (*stats.Case, error) {
		if err := s.WipeHeaders(); err != nil {
			return nil, fmt.Errorf("infra: wipe: %w", err)
		}
		r := &hist.Rig{S: s, T: model.NewTree(hist.Genesis()), Acked: map[[32]byte]bool{}}
		r.Headers = p.Build()
		r.Hashes = make([][32]byte, len(r.Headers))
		for i, h := range r.Headers {
			r.Hashes[i] = h.Hash()
		}
		return execC01(r, p, true)
	}
	for n := 1; n <= maxN; n++ {
		perms := permutations(n)
		// parent of spec i ranges over {-2 (unknown), -1 (genesis), 0..i-1}
		parents := make([]int, n)
		var recParents func(i int)
		recParents = func(i int) {
			if i == n {
				for mask := 0; mask < 1<<n; mask++ {
					for _, perm := range perms {
						count++
						if count%nshards != shard {
							continue
						}
						p := &hist.Plan{}
						for j := 0; j < n; j++ {
							p.Specs = append(p.Specs, hist.Spec{Parent: parents[j], Bits: bitsAB[(mask>>j)&1], Version: 1, Nonce: uint32(j), Time: 1231006505 + uint32(j), Merkle: uint64(j + 1)})
						}
						p.Delivery = append([]int{}, perm...)
						if !prop.CheckOne(t, p, fmt.Sprintf("n%d-%d", n, count)) {
							return
						}
					}
				}
				return
			}
			for par := -2; par < i; par++ {
				parents[i] = par
				recParents(i + 1)
				if t.Failed() {
					return
				}
			}
		}
		recParents(0)
		if t.Failed() {
			return
		}
	}
	if shard == 0 {
		stats.Count("exhaustive_space_size", int64(count))
	}
	stats.SetExhaustive()
}

func permutations(n int) [][]int {
	var out [][]int
	a := make([]int, n)
	for i := range a {
		a[i] = i
	}
	var rec func(k int)
	rec = func(k int) {
		if k == n {
			out = append(out, append([]int{}, a...))
			return
		}
		for i := k; i < n; i++ {
			a[k], a[i] = a[i], a[k]
			rec(k + 1)
			a[k], a[i] = a[i], a[k]
		}
	}
	rec(0)
	return out
}

// ---- deep reorganisations ---------------------------------------------------------------------------------------------
//
// A reorganisation that relabels 500 and more headers in one go (the SQL layer may split long hash lists): a long chain A,
// a longer-than-500 but much lighter branch B from a low fork point (STALE), one giant header on B (everything above the
// fork point of A goes STALE, all of B becomes LONGEST), then one even heavier header on A (and back).

func genC01Deep(t *rapid.T) *hist.Plan {
	lenA := rapid.IntRange(505, 1100).Draw(t, "lenA")
	forkAt := rapid.IntRange(0, lenA-501).Draw(t, "forkAt") // >= 501 headers of A lie above the fork point
	lenB := rapid.IntRange(500, 1050).Draw(t, "lenB")
	if rapid.IntRange(0, 2).Draw(t, "kilo") > 0 {
		// both hash lists of the reorganisation hold 999 entries and more (SQLite's classic bound-variable limit)
		lenA = rapid.IntRange(1000, 1100).Draw(t, "lenA2")
		forkAt = rapid.IntRange(0, lenA-999).Draw(t, "forkAt2")
		lenB = rapid.IntRange(998, 1050).Draw(t, "lenB2")
	}
	p := &hist.Plan{}
	add := func(parent int, bits uint32) int {
		i := len(p.Specs)
		p.Specs = append(p.Specs, hist.Spec{Parent: parent, Bits: bits, Version: 1, Nonce: uint32(i), Time: 1600000000 + uint32(i), Merkle: uint64(i + 1)})
		p.Delivery = append(p.Delivery, i)
		return i
	}
	last := -1
	var aIdx []int
	for i := 0; i < lenA; i++ {
		last = add(last, 0x1d00ffff)
		aIdx = append(aIdx, last)
	}
	bParent := -1
	if forkAt > 0 {
		bParent = aIdx[forkAt-1]
	}
	for i := 0; i < lenB; i++ {
		bParent = add(bParent, 0x1e00ffff)
	}
	add(bParent, 0x1800ffff)      // B overtakes: > 500 demoted, >= 500 promoted
	add(aIdx[lenA-1], 0x1700ffff) // and A takes over again
	if rapid.Bool().Draw(t, "again") {
		add(len(p.Specs)-2, 0x1600ffff) // a child of B's giant header, heavier still
	}
	return p
}

var propC01Deep = Prop[*hist.Plan]{ID: "C01", Name: "TestC01Deep", Gen: genC01Deep, Run: runC01}

func TestC01Deep(t *testing.T) {
	if propC01Deep.replayEnv(t) {
		return
	}
	propC01Deep.Check(t)
}
