package checks

import (
	"bytes"
	"encoding/json"
	"fmt"
	"path/filepath"
	"testing"

	"github.com/bitcoin-sv/block-headers-service/domains"
	"github.com/bitcoin-sv/block-headers-service/verifharness/hist"
	"github.com/bitcoin-sv/block-headers-service/verifharness/model"
	"github.com/bitcoin-sv/block-headers-service/verifharness/stack"
	"github.com/bitcoin-sv/block-headers-service/verifharness/stats"
	"pgregory.net/rapid"
)

// MRItem describes one (root, height) request item symbolically; it is resolved
// against the model at evaluation time.
type MRItem struct {
	RootKind int `json:"rootKind"` // 0 longest 1 stale 2 orphan 3 unknown hex 4 non-hex 5 empty 6 any stored
	NodeIdx  int `json:"nodeIdx"`  // index modulo the class size
	HKind    int `json:"hKind"`    // 0 own height + HArg; 1 absolute class HArg
	HArg     int `json:"hArg"`
}

// C02Plan is a history, a request list, and the positions at which it is evaluated.
type C02Plan struct {
	Hist   *hist.Plan `json:"hist"`
	Excess int        `json:"excess"`
	Items  []MRItem   `json:"items"`
	Evals  []int      `json:"evals"` // delivery positions after which the list is evaluated (the end is always evaluated)
}

var absHeights = func(tip int32, excess int) []int64 {
	return []int64{-2147483648, -1, 0, int64(tip), int64(tip) + 1, int64(tip) + int64(excess), int64(tip) + int64(excess) + 1, 2147483647, int64(tip) - 1, int64(tip) + 2}
}

func resolveItems(t *model.Tree, items []MRItem, excess int) []domains.MerkleRootConfirmationRequestItem {
	out := make([]domains.MerkleRootConfirmationRequestItem, 0, len(items))
	classes := [][]*model.Node{t.ByLabel(model.Longest), t.ByLabel(model.Stale), t.ByLabel(model.Orphan)}
	for _, it := range items {
		var root string
		var own int64
		pick := func(list []*model.Node) *model.Node {
			if len(list) == 0 {
				list = classes[0]
			}
			i := it.NodeIdx % len(list)
			if i < 0 {
				i += len(list)
			}
			return list[i]
		}
		switch it.RootKind {
		case 0, 1, 2:
			n := pick(classes[it.RootKind])
			root, own = model.HashStr(n.H.Merkle), int64(n.Height)
		case 6:
			n := pick(t.Order)
			root, own = model.HashStr(n.H.Merkle), int64(n.Height)
		case 3:
			root, own = model.HashStr(hist.MerkleOf(uint64(0xdead0000+it.NodeIdx))), int64(t.Best.Height)
		case 4:
			root, own = "zz-not-hex-"+fmt.Sprint(it.NodeIdx), int64(t.Best.Height)
		default:
			root, own = "", int64(t.Best.Height)
		}
		var h int64
		if it.HKind == 0 {
			h = own + int64(it.HArg)
		} else {
			a := absHeights(t.Best.Height, excess)
			i := it.HArg % len(a)
			if i < 0 {
				i += len(a)
			}
			h = a[i]
		}
		if h > 2147483647 {
			h = 2147483647
		}
		if h < -2147483648 {
			h = -2147483648
		}
		out = append(out, domains.MerkleRootConfirmationRequestItem{MerkleRoot: root, BlockHeight: int32(h)})
	}
	return out
}

type verdict struct {
	State string
	Hash  string
}

func modelVerdicts(t *model.Tree, req []domains.MerkleRootConfirmationRequestItem, excess int) ([]verdict, string) {
	path := t.LongestPath()
	tip := int64(t.Best.Height)
	sev := map[string]int{"CONFIRMED": 0, "UNABLE_TO_VERIFY": 1, "INVALID": 2}
	agg := "CONFIRMED"
	out := make([]verdict, len(req))
	for i, it := range req {
		h := int64(it.BlockHeight)
		v := verdict{State: "INVALID"}
		if h >= 0 && h <= tip && model.HashStr(path[h].H.Merkle) == it.MerkleRoot {
			v = verdict{State: "CONFIRMED", Hash: path[h].HashStr}
		} else if h > tip && h-tip <= int64(excess) {
			v.State = "UNABLE_TO_VERIFY"
		}
		out[i] = v
		if sev[v.State] > sev[agg] {
			agg = v.State
		}
	}
	return out, agg
}

type verifyResp struct {
	ConfirmationState string `json:"confirmationState"`
	Confirmations     []struct {
		Hash         string `json:"blockHash"`
		BlockHeight  int32  `json:"blockHeight"`
		MerkleRoot   string `json:"merkleRoot"`
		Confirmation string `json:"confirmation"`
	} `json:"confirmations"`
}

// evalVerify sends the list both ways and compares with the model. Returns the verdict vector.
func evalVerify(r *hist.Rig, items []MRItem, excess int, where string) ([]verdict, error) {
	req := resolveItems(r.T, items, excess)
	want, agg := modelVerdicts(r.T, req, excess)
	got, err := r.S.Services.Merkleroots.GetMerkleRootsConfirmations(req)
	if err != nil {
		return nil, fmt.Errorf("%s: GetMerkleRootsConfirmations failed: %v", where, err)
	}
	if len(got) != len(req) {
		return nil, fmt.Errorf("%s: %d confirmations for %d items", where, len(got), len(req))
	}
	for i := range req {
		if got[i].MerkleRoot != req[i].MerkleRoot || got[i].BlockHeight != req[i].BlockHeight {
			return nil, fmt.Errorf("%s: item %d answered for (%q,%d), asked (%q,%d)", where, i, got[i].MerkleRoot, got[i].BlockHeight, req[i].MerkleRoot, req[i].BlockHeight)
		}
		if string(got[i].Confirmation) != want[i].State || got[i].Hash != want[i].Hash {
			return nil, fmt.Errorf("%s: item %d (%q, height %d; tip %d, excess %d): verdict %s hash %q, expected %s hash %q", where, i, req[i].MerkleRoot, req[i].BlockHeight, r.T.Best.Height, excess, got[i].Confirmation, got[i].Hash, want[i].State, want[i].Hash)
		}
	}
	body, _ := json.Marshal(req)
	resp, _ := r.S.Do("POST", "/api/v1/chain/merkleroot/verify", map[string]string{"Content-Type": "application/json"}, body)
	if resp.Code != 200 {
		return nil, fmt.Errorf("%s: POST verify: status %d body %s", where, resp.Code, resp.Body)
	}
	var vr verifyResp
	dec := json.NewDecoder(bytes.NewReader(resp.Body))
	if err := dec.Decode(&vr); err != nil {
		return nil, fmt.Errorf("%s: POST verify: bad JSON %s", where, resp.Body)
	}
	if vr.ConfirmationState != agg {
		return nil, fmt.Errorf("%s: overall verdict %s, expected %s (worst of %v)", where, vr.ConfirmationState, agg, want)
	}
	if len(vr.Confirmations) != len(req) {
		return nil, fmt.Errorf("%s: HTTP returned %d confirmations for %d items", where, len(vr.Confirmations), len(req))
	}
	for i, c := range vr.Confirmations {
		if c.MerkleRoot != req[i].MerkleRoot || c.BlockHeight != req[i].BlockHeight || c.Confirmation != want[i].State || c.Hash != want[i].Hash {
			return nil, fmt.Errorf("%s: HTTP item %d = %+v, expected (%q,%d) %s %q", where, i, c, req[i].MerkleRoot, req[i].BlockHeight, want[i].State, want[i].Hash)
		}
	}
	return want, nil
}

var c02Dir string

func runC02(p *C02Plan) (*stats.Case, error) {
	if c02Dir == "" {
		c02Dir = scratchDir("c02")
	}
	stack.RemoveDB(filepath.Join(c02Dir, "bhs.db"))
	ex := p.Excess
	r, err := hist.NewRig(c02Dir, p.Hist, stack.Options{MerkleExcess: &ex})
	if err != nil {
		return nil, fmt.Errorf("infra: %w", err)
	}
	defer r.Close()
	evalAt := map[int]bool{}
	for _, e := range p.Evals {
		evalAt[e] = true
	}
	evalAt[len(p.Hist.Delivery)-1] = true
	type rootAt struct {
		root string
		h    int32
	}
	// track the verdict of every concrete (root,height) pair across evaluations
	seen := map[rootAt]string{}
	changed, allThree, evalsDone, reorgsBetween := 0, false, 0, 0
	lastReorgs := 0
	for step, idx := range p.Hist.Delivery {
		if idx < 0 || idx >= len(r.Headers) {
			continue
		}
		if _, _, err := r.Deliver(idx); err != nil {
			return nil, fmt.Errorf("step %d: %w", step, err)
		}
		if !evalAt[step] || len(p.Items) == 0 {
			continue
		}
		vs, err := evalVerify(r, p.Items, p.Excess, fmt.Sprintf("after step %d", step))
		if err != nil {
			return nil, err
		}
		evalsDone++
		if r.T.Reorgs > lastReorgs && evalsDone > 1 {
			reorgsBetween++
		}
		lastReorgs = r.T.Reorgs
		req := resolveItems(r.T, p.Items, p.Excess)
		states := map[string]bool{}
		for i, v := range vs {
			states[v.State] = true
			k := rootAt{req[i].MerkleRoot, req[i].BlockHeight}
			if old, ok := seen[k]; ok && old != v.State {
				changed++
			}
			seen[k] = v.State
		}
		if len(states) == 3 {
			allThree = true
		}
	}
	cl := histClasses(p.Hist, r.T, 0, 0, 0)
	cl["items"] = int64(len(p.Items))
	cl["with_verdict_change_across_evals"] = b2i(changed > 0)
	cl["with_all_three_verdicts"] = b2i(allThree)
	cl["with_reorg_between_evals"] = b2i(reorgsBetween > 0)
	nt := (changed > 0 && r.T.Reorgs > 0) || allThree
	return &stats.Case{Sig: stats.Sig(planSig(p.Hist), fmt.Sprint(p.Items), p.Excess, fmt.Sprint(p.Evals)), Nontrivial: nt, Classes: cl, Sample: p}, nil
}

var propC02 = Prop[*C02Plan]{
	ID:   "C02",
	Name: "TestC02",
	Gen: func(t *rapid.T) *C02Plan {
		h := hist.Gen(t, hist.GenOpts{MaxSpecs: quickThorough(20, 50), MinSpecs: 2, NoForbidden: true})
		p := &C02Plan{Hist: h}
		p.Excess = rapid.SampledFrom([]int{0, 1, 2, 6, 6, 1000, 2147483647}).Draw(t, "excess")
		n := rapid.IntRange(1, 40).Draw(t, "nitems")
		if n > 12 && rapid.IntRange(0, 2).Draw(t, "fewer") > 0 {
			n = n%12 + 1
		}
		for i := 0; i < n; i++ {
			it := MRItem{}
			it.RootKind = rapid.SampledFrom([]int{0, 0, 0, 0, 1, 1, 2, 3, 4, 5, 6, 6}).Draw(t, "rk")
			it.NodeIdx = rapid.IntRange(0, 60).Draw(t, "ni")
			if rapid.IntRange(0, 9).Draw(t, "hk") < 6 {
				it.HKind, it.HArg = 0, rapid.SampledFrom([]int{0, 0, 0, 0, 1, -1, 2}).Draw(t, "dh")
			} else {
				it.HKind, it.HArg = 1, rapid.IntRange(0, 9).Draw(t, "ha")
			}
			p.Items = append(p.Items, it)
			if i > 0 && rapid.IntRange(0, 9).Draw(t, "dupitem") == 0 {
				p.Items = append(p.Items, p.Items[rapid.IntRange(0, i-1).Draw(t, "dupi")])
			}
		}
		ne := rapid.IntRange(1, 3).Draw(t, "nevals")
		for i := 0; i < ne; i++ {
			p.Evals = append(p.Evals, rapid.IntRange(0, len(h.Delivery)-1).Draw(t, "eval"))
		}
		return p
	},
	Run: runC02,
}

func TestC02(t *testing.T) {
	if propC02.replayEnv(t) {
		return
	}
	propC02.Check(t)
}

func TestC02Regress(t *testing.T) { propC02.Regress(t) }
