package checks

import (
	"encoding/json"
	"fmt"
	"regexp"
	"sort"
	"strings"
	"testing"

	"github.com/bitcoin-sv/block-headers-service/verifharness/hist"
	"github.com/bitcoin-sv/block-headers-service/verifharness/model"
	"github.com/bitcoin-sv/block-headers-service/verifharness/stack"
	"github.com/bitcoin-sv/block-headers-service/verifharness/stats"
	"pgregory.net/rapid"
)

const apiPrefix = "/api/v1"

// authFixture is a stack with auth configuration, a small store and issued tokens.
type authFixture struct {
	S        *stack.Stack
	Calls    *callCounter
	Admin    string
	User     string // issued, valid
	Victim   string // issued, valid; used as :token of DELETE /access/:token
	Revoked  string
	LongHash string
	Genesis  string
	Merkle   string
	WebhookU string
}

func newAuthFixture(dir string, useAuth, profiling, metrics bool) (*authFixture, error) {
	f := &authFixture{Calls: &callCounter{}, Admin: "adm-" + strings.Repeat("x", 12)}
	stack.RemoveDB(dir + "/bhs.db")
	prof := profiling
	// fill the store through a stack without notification channels (no asynchronous webhook bookkeeping later)
	s0, err := stack.New(stack.Options{Dir: dir})
	if err != nil {
		return nil, err
	}
	g := hist.Genesis()
	a := model.Header{Version: 1, Prev: g.Hash, Merkle: hist.MerkleOf(1), Timestamp: 1600000001, Bits: 0x1d00ffff, Nonce: 1}
	b := model.Header{Version: 1, Prev: a.Hash(), Merkle: hist.MerkleOf(2), Timestamp: 1600000002, Bits: 0x1d00ffff, Nonce: 2}
	c := model.Header{Version: 1, Prev: g.Hash, Merkle: hist.MerkleOf(3), Timestamp: 1600000003, Bits: 0x1d00ffff, Nonce: 3}
	for _, h := range []model.Header{a, b, c} {
		if _, err := s0.Services.Chains.Add(hist.ToSource(h)); err != nil {
			return nil, err
		}
	}
	s0.Close()
	s, err := stack.New(stack.Options{Dir: dir, UseAuth: useAuth, AdminToken: f.Admin, Profiling: &prof, Metrics: metrics, Websocket: true, WrapServices: wrapAll(f.Calls)})
	if err != nil {
		return nil, err
	}
	f.S = s
	f.LongHash, f.Genesis, f.Merkle = model.HashStr(b.Hash()), model.HashStr(g.Hash), model.HashStr(a.Merkle)
	for _, p := range []*string{&f.User, &f.Victim, &f.Revoked} {
		t, err := s.Services.Tokens.GenerateToken()
		if err != nil {
			return nil, err
		}
		*p = t.Token
	}
	// the token that is revoked below was in use before (a lookup cache must not outlive the revocation)
	if useAuth {
		if r, _ := s.Do("GET", apiPrefix+"/chain/tip/longest", map[string]string{"Authorization": "Bearer " + f.Revoked}, nil); r.Code != 200 {
			return nil, fmt.Errorf("fixture: fresh token was not accepted (%d)", r.Code)
		}
	}
	if _, err := s.Services.Tokens.GetToken(f.Revoked); err != nil {
		return nil, err
	}
	if err := s.Services.Tokens.DeleteToken(f.Revoked); err != nil {
		return nil, err
	}
	f.WebhookU = "http://hook.invalid/existing"
	if _, err := s.Services.Webhooks.CreateWebhook("bearer", "", "tok", f.WebhookU); err != nil {
		return nil, err
	}
	f.Calls.n.Store(0)
	return f, nil
}

var paramRe = regexp.MustCompile(`[:*][A-Za-z]+`)

// fill builds a concrete, valid-shaped request for a route.
func (f *authFixture) fill(method, path string) (target string, body []byte) {
	target = paramRe.ReplaceAllStringFunc(path, func(p string) string {
		switch p {
		case ":hash":
			return f.LongHash
		case ":ancestorHash":
			return f.Genesis
		case ":token":
			return f.Victim
		case "*any":
			return "/index.html"
		}
		return "x"
	})
	switch {
	case strings.HasSuffix(path, "/byHeight"):
		target += "?height=0&count=2"
	case strings.HasSuffix(path, "/webhook") && method != "POST":
		target += "?url=" + f.WebhookU
	case strings.HasSuffix(path, "/commonAncestor"):
		body, _ = json.Marshal([]string{f.LongHash})
	case strings.HasSuffix(path, "/verify"):
		body = []byte(fmt.Sprintf(`[{"merkleRoot":%q,"blockHeight":1}]`, f.Merkle))
	case strings.HasSuffix(path, "/webhook") && method == "POST":
		body = []byte(`{"url":"http://hook.invalid/new","requiredAuth":{"type":"bearer","token":"t","header":""}}`)
	}
	return
}

type credClass struct {
	Name  string
	Value func(f *authFixture) (string, bool) // header value, set?
	Kind  string                              // reject | user | admin
}

var credClasses = []credClass{
	{"none", func(f *authFixture) (string, bool) { return "", false }, "reject"},
	{"empty", func(f *authFixture) (string, bool) { return "", true }, "reject"},
	{"basic", func(f *authFixture) (string, bool) { return "Basic " + f.Admin, true }, "reject"},
	{"bearer-no-token", func(f *authFixture) (string, bool) { return "Bearer", true }, "reject"},
	{"bearer-extra-part", func(f *authFixture) (string, bool) { return "Bearer " + f.Admin + " x", true }, "reject"},
	{"lowercase-scheme", func(f *authFixture) (string, bool) { return "bearer " + f.Admin, true }, "reject"},
	{"token-only", func(f *authFixture) (string, bool) { return f.Admin, true }, "reject"},
	{"unknown-token", func(f *authFixture) (string, bool) { return "Bearer nosuchtoken0000000000000000000000", true }, "reject"},
	{"admin-token-prefix", func(f *authFixture) (string, bool) { return "Bearer " + f.Admin[:1], true }, "reject"},
	{"admin-token-all-but-last", func(f *authFixture) (string, bool) { return "Bearer " + f.Admin[:len(f.Admin)-1], true }, "reject"},
	{"admin-token-plus-suffix", func(f *authFixture) (string, bool) { return "Bearer " + f.Admin + "x", true }, "reject"},
	{"user-token-prefix", func(f *authFixture) (string, bool) { return "Bearer " + f.User[:8], true }, "reject"},
	{"revoked-token", func(f *authFixture) (string, bool) { return "Bearer " + f.Revoked, true }, "reject"},
	{"user-token", func(f *authFixture) (string, bool) { return "Bearer " + f.User, true }, "user"},
	{"admin-token", func(f *authFixture) (string, bool) { return "Bearer " + f.Admin, true }, "admin"},
}

func isAdminRoute(method, path string) bool {
	return strings.HasPrefix(path, apiPrefix+"/access") && (method == "POST" || method == "DELETE")
}

func isSlowRoute(path string) bool {
	return strings.HasSuffix(path, "/profile") || strings.HasSuffix(path, "/trace")
}

func allowedRootRoute(path string, profiling, metrics bool) bool {
	switch {
	case path == "/status", path == "/swagger/*any", path == "/connection/websocket":
		return true
	case path == "/metrics":
		return metrics
	case strings.HasPrefix(path, "/pprof/debug/"):
		return profiling
	}
	return false
}

// TestC09 enumerates routes x credential classes x configurations.
func TestC09(t *testing.T) {
	stats.Setup("C09", "TestC09")
	dir := scratchDir("c09")
	type cell struct{ auth, prof, metrics bool }
	var cells []cell
	for _, m := range []bool{false, true} { // metrics can only be switched on in a process
		for _, a := range []bool{true, false} {
			for _, p := range []bool{true, false} {
				cells = append(cells, cell{a, p, m})
			}
		}
	}
	fail := func(sample any, format string, args ...any) {
		msg := fmt.Sprintf(format, args...)
		path := fmt.Sprintf("%s/viol-TestC09-%x.json", violDir("C09"), stats.Sig(msg))
		writeReplay(path, "C09", "TestC09", sample, msg)
		stats.AddViolation(stats.Violation{Property: "C09", Replay: path, Message: msg})
		t.Errorf("%s", msg)
	}
	total := 0
	for _, c := range cells {
		f, err := newAuthFixture(dir, c.auth, c.prof, c.metrics)
		if err != nil {
			t.Fatalf("infra: %v", err)
		}
		routes := f.S.Engine.Routes()
		sort.Slice(routes, func(i, j int) bool { return routes[i].Path+routes[i].Method < routes[j].Path+routes[j].Method })
		seenStatus := false
		for _, rt := range routes {
			if !strings.HasPrefix(rt.Path, apiPrefix+"/") {
				if !allowedRootRoute(rt.Path, c.prof, c.metrics) {
					fail(map[string]any{"route": rt.Path, "method": rt.Method, "cell": c}, "route %s %s exists outside the authenticated prefix (auth=%v profiling=%v metrics=%v)", rt.Method, rt.Path, c.auth, c.prof, c.metrics)
				}
				if rt.Path == "/status" {
					seenStatus = true
				}
				continue
			}
			for _, cc := range credClasses {
				total++
				target, body := f.fill(rt.Method, rt.Path)
				hdr := map[string]string{}
				if body != nil {
					hdr["Content-Type"] = "application/json"
				}
				if v, set := cc.Value(f); set {
					hdr["Authorization"] = v
				}
				before, _ := f.S.Digest()
				calls0 := f.Calls.get()
				resp, pan := f.S.Do(rt.Method, target, hdr, body)
				sample := map[string]any{"method": rt.Method, "route": rt.Path, "target": target, "credential": cc.Name, "use_auth": c.auth, "profiling": c.prof, "metrics": c.metrics}
				if pan != nil {
					fail(sample, "%s %s with credential %s panicked: %v", rt.Method, rt.Path, cc.Name, pan)
					continue
				}
				expect401 := c.auth && (cc.Kind == "reject" || (cc.Kind == "user" && isAdminRoute(rt.Method, rt.Path)))
				switch {
				case expect401:
					var e errResp
					if resp.Code != 401 || json.Unmarshal(resp.Body, &e) != nil || e.Code == "" || e.Message == "" {
						fail(sample, "%s %s with credential %q (auth on): status %d body %s, expected a structured 401", rt.Method, rt.Path, cc.Name, resp.Code, resp.Body)
					}
					if n := f.Calls.get() - calls0; n != 0 {
						fail(sample, "%s %s with credential %q was rejected but %d service calls ran", rt.Method, rt.Path, cc.Name, n)
					}
					if after, _ := f.S.Digest(); after != before {
						fail(sample, "%s %s with credential %q was rejected but the store changed", rt.Method, rt.Path, cc.Name)
					}
				default:
					if resp.Code == 401 {
						fail(sample, "%s %s with credential %q (auth=%v): unexpected 401 %s", rt.Method, rt.Path, cc.Name, c.auth, resp.Body)
					}
					// restore what a successful mutation changed so that every triple sees the same fixture
					if resp.Code < 300 && rt.Method != "GET" {
						if err := f.restore(); err != nil {
							t.Fatalf("infra: %v", err)
						}
					}
				}
				nt := cc.Name != "none" && (rt.Method != "GET" || isAdminRoute(rt.Method, rt.Path))
				stats.Record(&stats.Case{Sig: stats.Sig(rt.Method, rt.Path, cc.Name, c.auth, c.prof, c.metrics), Nontrivial: nt,
					Classes: map[string]int64{"requests": 1, "expect401": b2i(expect401), "cred_" + cc.Name: 1}, Sample: sample})
			}
		}
		if !seenStatus {
			fail(map[string]any{"cell": c}, "status route missing")
		}
		// root routes answer without credentials (cheap ones only)
		for _, rt := range routes {
			if strings.HasPrefix(rt.Path, apiPrefix+"/") || isSlowRoute(rt.Path) || rt.Path == "/connection/websocket" {
				continue
			}
			target, _ := f.fill(rt.Method, rt.Path)
			resp, pan := f.S.Do(rt.Method, target, nil, nil)
			if pan != nil || resp.Code == 401 || resp.Code >= 500 {
				fail(map[string]any{"route": rt.Path}, "root route %s: status %d panic %v", rt.Path, resp.Code, pan)
			}
			stats.Count("root_route_calls", 1)
		}
		stats.Count("routes_total", int64(len(routes)))
		f.S.Close()
	}
	stats.Count("configuration_cells", int64(len(cells)))
	stats.SetExhaustive()
}

// restore re-creates the fixture rows a successful mutation may have consumed.
func (f *authFixture) restore() error {
	if _, err := f.S.Services.Tokens.GetToken(f.Victim); err != nil {
		if _, err := f.S.DB.Exec(`INSERT INTO tokens(token) VALUES(?)`, f.Victim); err != nil {
			return err
		}
	}
	if _, err := f.S.DB.Exec(`DELETE FROM tokens WHERE token NOT IN (?,?)`, f.User, f.Victim); err != nil {
		return err
	}
	if _, err := f.S.DB.Exec(`DELETE FROM webhooks WHERE url <> ?`, f.WebhookU); err != nil {
		return err
	}
	if w, _ := f.S.Services.Webhooks.GetWebhookByURL(f.WebhookU); w == nil {
		if _, err := f.S.Services.Webhooks.CreateWebhook("bearer", "", "tok", f.WebhookU); err != nil {
			return err
		}
	}
	return nil
}

// ---- thorough: generated Authorization values ---------------------------------

type C09AuthPlan struct {
	Parts []int  `json:"parts"` // indices into the token alphabet
	Route int    `json:"route"`
	Value string `json:"value,omitempty"` // resolved value (informational)
}

var c09fx *authFixture

func authAlphabet(f *authFixture) []string {
	return []string{"Bearer", "bearer", "BEARER", "Basic", " ", "  ", "\t", f.Admin, f.User, f.Revoked, "nosuch", ",", ";", " ", "Bearer ", strings.Repeat("A", 8192), "\"", "=", f.Admin[:len(f.Admin)-1], f.User + "x"}
}

func runC09Auth(p *C09AuthPlan) (*stats.Case, error) {
	if c09fx == nil {
		f, err := newAuthFixture(scratchDir("c09a"), true, false, false)
		if err != nil {
			return nil, fmt.Errorf("infra: %w", err)
		}
		c09fx = f
	}
	f := c09fx
	al := authAlphabet(f)
	var sb strings.Builder
	for _, i := range p.Parts {
		sb.WriteString(al[i%len(al)])
	}
	v := sb.String()
	p.Value = v
	if len(p.Value) > 200 {
		p.Value = p.Value[:200] + "..."
	}
	var routes [][2]string
	for _, rt := range f.S.Engine.Routes() {
		if strings.HasPrefix(rt.Path, apiPrefix+"/") && rt.Method == "GET" {
			routes = append(routes, [2]string{rt.Method, rt.Path})
		}
	}
	sort.Slice(routes, func(i, j int) bool { return routes[i][1] < routes[j][1] })
	rt := routes[p.Route%len(routes)]
	target, _ := f.fill(rt[0], rt[1])
	calls0 := f.Calls.get()
	resp, pan := f.S.Do(rt[0], target, map[string]string{"Authorization": v}, nil)
	if pan != nil {
		return nil, fmt.Errorf("Authorization %q on %s: panic %v", p.Value, rt[1], pan)
	}
	exactValid := v == "Bearer "+f.Admin || v == "Bearer "+f.User
	containsValid := strings.Contains(v, f.Admin) || strings.Contains(v, f.User)
	switch {
	case exactValid:
		if resp.Code == 401 {
			return nil, fmt.Errorf("Authorization %q is a valid bearer token but got 401", p.Value)
		}
	case !containsValid:
		if resp.Code != 401 {
			return nil, fmt.Errorf("Authorization %q carries no valid token but %s %s answered %d", p.Value, rt[0], rt[1], resp.Code)
		}
		if f.Calls.get() != calls0 {
			return nil, fmt.Errorf("Authorization %q rejected but handler logic ran", p.Value)
		}
	}
	return &stats.Case{Sig: stats.Sig(v, rt[1]), Nontrivial: len(p.Parts) >= 2, Classes: map[string]int64{"auth_values": 1, "exact_valid": b2i(exactValid), "contains_valid_token_malformed": b2i(containsValid && !exactValid)}, Sample: p}, nil
}

var propC09Auth = Prop[*C09AuthPlan]{
	ID:   "C09",
	Name: "TestC09AuthValues",
	Gen: func(t *rapid.T) *C09AuthPlan {
		p := &C09AuthPlan{Route: rapid.IntRange(0, 30).Draw(t, "route")}
		if rapid.IntRange(0, 5).Draw(t, "valid") == 0 {
			p.Parts = []int{0, 4, rapid.SampledFrom([]int{7, 8}).Draw(t, "tok")}
			return p
		}
		n := rapid.IntRange(0, 6).Draw(t, "n")
		for i := 0; i < n; i++ {
			p.Parts = append(p.Parts, rapid.IntRange(0, 19).Draw(t, "part"))
		}
		return p
	},
	Run: runC09Auth,
}

func TestC09AuthValues(t *testing.T) {
	if propC09Auth.replayEnv(t) {
		return
	}
	propC09Auth.Check(t)
}
