package checks

import (
	"encoding/json"
	"fmt"
	"path/filepath"
	"sort"
	"testing"

	"github.com/bitcoin-sv/block-headers-service/verifharness/hist"
	"github.com/bitcoin-sv/block-headers-service/verifharness/model"
	"github.com/bitcoin-sv/block-headers-service/verifharness/stack"
	"github.com/bitcoin-sv/block-headers-service/verifharness/stats"
	"pgregory.net/rapid"
)

// Q is one symbolic query; hashes are picked as Order[idx % len] (or unknown when idx < 0).
type Q struct {
	Kind  int   `json:"kind"` // 0 header 1 state 2 byHeight 3 tips 4 tipLongest 5 ancestors 6 commonAncestor
	A     int   `json:"a"`
	B     int   `json:"b"`
	Set   []int `json:"set,omitempty"`
	PairK int   `json:"pairK"` // for ancestors: 0 free pair, 1 ancestor = k-th ancestor of A, 2 reversed, 3 same, 4 same height other branch
}

// C04Plan = a store and queries against it.
type C04Plan struct {
	Hist    *hist.Plan `json:"hist"`
	Queries []Q        `json:"queries"`
	// Phases > 1: the deliveries and the queries are cut into that many segments and alternate ("at any moment":
	// the same running service answers before and after later headers and reorganisations); every phase ends with
	// a sweep over all stored headers.
	Phases int `json:"phases,omitempty"`
}

func nodeAt(t *model.Tree, idx int) (*model.Node, string) {
	if idx < 0 {
		h := hist.UnknownParent(1000 - idx)
		return nil, model.HashStr(h)
	}
	n := t.Order[idx%len(t.Order)]
	return n, n.HashStr
}

// linkClean reports whether the hash links below n agree with the model's parent pointers
// (false for orphans that arrived before their parent, and their descendants).
func linkClean(t *model.Tree, n *model.Node) bool {
	for x := n; x != nil; x = x.Parent {
		if x.Parent == nil && x != t.Genesis {
			if _, ok := t.Nodes[x.H.Prev]; ok {
				return false
			}
		}
	}
	return true
}

type errResp struct {
	Code    string `json:"code"`
	Message string `json:"message"`
}

func isStructured4xx(r stack.Response) bool {
	if r.Code < 400 || r.Code >= 500 {
		return false
	}
	var e errResp
	return json.Unmarshal(r.Body, &e) == nil && e.Code != "" && e.Message != ""
}

func hashesOf(list []headerResp) []string {
	out := make([]string, len(list))
	for i, h := range list {
		out[i] = h.Hash
	}
	sort.Strings(out)
	return out
}

func evalQuery(r *hist.Rig, q Q) (touchesTwoBranches bool, err error) {
	t := r.T
	switch q.Kind {
	case 0, 1:
		n, hs := nodeAt(t, q.A)
		path := "/api/v1/chain/header/"
		if q.Kind == 1 {
			path += "state/"
		}
		resp := r.S.Get(path + hs)
		if n == nil {
			if resp.Code != 404 || !isStructured4xx(resp) {
				return false, fmt.Errorf("GET %s%s (unknown hash): status %d body %s, expected structured 404", path, hs, resp.Code, resp.Body)
			}
			return false, nil
		}
		return false, checkServiceViews(r, n)
	case 2:
		tip := int(t.Best.Height)
		height := q.A%(tip+6) - 2
		count := q.B%(tip+5) - 1
		resp := r.S.Get(fmt.Sprintf("/api/v1/chain/header/byHeight?height=%d&count=%d", height, count))
		if resp.Code != 200 {
			return false, fmt.Errorf("GET byHeight height=%d count=%d: status %d body %s", height, count, resp.Code, resp.Body)
		}
		var list []headerResp
		if err := json.Unmarshal(resp.Body, &list); err != nil {
			return false, fmt.Errorf("GET byHeight: bad JSON %s", resp.Body)
		}
		lo, hi := int32(height), int32(height+count-1)
		got := map[string]bool{}
		for _, h := range list {
			hh, ok := model.ParseHashStr(h.Hash)
			n := t.Nodes[hh]
			if !ok || n == nil {
				return false, fmt.Errorf("GET byHeight height=%d count=%d returned unknown header %s", height, count, h.Hash)
			}
			if n.Height < lo || n.Height > hi {
				return false, fmt.Errorf("GET byHeight height=%d count=%d returned header %s of height %d outside the window", height, count, h.Hash, n.Height)
			}
			if err := checkHeaderResp(h, n); err != nil {
				return false, err
			}
			if got[h.Hash] {
				return false, fmt.Errorf("GET byHeight returned %s twice", h.Hash)
			}
			got[h.Hash] = true
		}
		for _, n := range t.LongestPath() {
			if n.Height >= lo && n.Height <= hi && !got[n.HashStr] {
				return false, fmt.Errorf("GET byHeight height=%d count=%d misses longest-chain header %s at height %d", height, count, n.HashStr, n.Height)
			}
		}
		return false, nil
	case 3:
		resp := r.S.Get("/api/v1/chain/tip")
		if resp.Code != 200 {
			return false, fmt.Errorf("GET tip: status %d body %s", resp.Code, resp.Body)
		}
		var list []stateResp
		if err := json.Unmarshal(resp.Body, &list); err != nil {
			// work is a JSON number in the tips model
			var raw []struct {
				Header struct {
					Hash string `json:"hash"`
				} `json:"header"`
				State  string `json:"state"`
				Height int32  `json:"height"`
			}
			if err2 := json.Unmarshal(resp.Body, &raw); err2 != nil {
				return false, fmt.Errorf("GET tip: bad JSON %s", resp.Body)
			}
			list = nil
			for _, x := range raw {
				list = append(list, stateResp{Header: headerResp{Hash: x.Header.Hash}, State: x.State, Height: x.Height})
			}
		}
		want := t.Tips()
		got := map[string]bool{}
		for _, x := range list {
			if got[x.Header.Hash] {
				return false, fmt.Errorf("GET tip lists %s twice", x.Header.Hash)
			}
			got[x.Header.Hash] = true
			n := want[x.Header.Hash]
			if n == nil {
				return false, fmt.Errorf("GET tip lists %s which is not a tip (model tips: %v)", x.Header.Hash, keys(want))
			}
			if x.State != n.Label || x.Height != n.Height {
				return false, fmt.Errorf("GET tip: %s state %s height %d, model %s %d", x.Header.Hash, x.State, x.Height, n.Label, n.Height)
			}
		}
		for h := range want {
			if !got[h] {
				return false, fmt.Errorf("GET tip misses tip %s (%s); got %v", h, want[h].Label, keys2(got))
			}
		}
		return len(want) > 1, nil
	case 4:
		resp := r.S.Get("/api/v1/chain/tip/longest")
		var tr tipResp
		if resp.Code != 200 || json.Unmarshal(resp.Body, &tr) != nil {
			return false, fmt.Errorf("GET tip/longest: status %d body %s", resp.Code, resp.Body)
		}
		if tr.Header.Hash != t.Best.HashStr || tr.Height != t.Best.Height || tr.State != model.Longest {
			return false, fmt.Errorf("GET tip/longest = %s height %d, model best %s height %d", tr.Header.Hash, tr.Height, t.Best.HashStr, t.Best.Height)
		}
		return false, nil
	case 5:
		hn, hs := nodeAt(t, q.A)
		var an *model.Node
		var as string
		switch {
		case hn == nil:
			an, as = nodeAt(t, q.B)
		case q.PairK == 1: // k-th ancestor
			an = hn
			for k := 0; k <= q.B%6 && an.Parent != nil; k++ {
				an = an.Parent
			}
			as = an.HashStr
		case q.PairK == 2: // reversed: hash is an ancestor of "ancestor"
			an = hn
			for k := 0; k <= q.B%4 && hn.Parent != nil; k++ {
				hn = hn.Parent
			}
			hs, as = hn.HashStr, an.HashStr
		case q.PairK == 3:
			an, as = hn, hs
		case q.PairK == 4: // same height, different header if one exists
			an, as = hn, hs
			for _, o := range t.Order {
				if o.Height == hn.Height && o != hn {
					an, as = o, o.HashStr
					if (q.B+o.Seq)%2 == 0 {
						break
					}
				}
			}
		default:
			an, as = nodeAt(t, q.B)
		}
		resp := r.S.Get("/api/v1/chain/header/" + hs + "/" + as + "/ancestor")
		if hn == nil || an == nil {
			if !isStructured4xx(resp) {
				return false, fmt.Errorf("GET ancestor with unknown hash: status %d body %s, expected structured 4xx", resp.Code, resp.Body)
			}
			return false, nil
		}
		if !linkClean(t, hn) || !linkClean(t, an) {
			return false, nil // hash links and arrival-time parents disagree: the statement does not say which governs
		}
		var list []headerResp
		ok200 := resp.Code == 200 && json.Unmarshal(resp.Body, &list) == nil
		two := hn.Label != an.Label || (hn.Label != model.Longest && !model.IsAncestor(an, hn) && !model.IsAncestor(hn, an))
		switch {
		case hn == an:
			if !ok200 || len(list) > 1 || (len(list) == 1 && list[0].Hash != hs) {
				return two, fmt.Errorf("GET ancestor(%s,%s) same header: status %d body %s, expected 200 with [] or the header itself", hs, as, resp.Code, resp.Body)
			}
		case model.IsAncestor(an, hn): // proper ancestor: exact path
			path := model.Path(an, hn)
			if !ok200 {
				return two, fmt.Errorf("GET ancestor(%s,%s): status %d body %s, expected the %d-header path", hs, as, resp.Code, resp.Body, len(path))
			}
			want := make([]string, len(path))
			byHash := map[string]*model.Node{}
			for i, n := range path {
				want[i] = n.HashStr
				byHash[n.HashStr] = n
			}
			sort.Strings(want)
			got := hashesOf(list)
			if fmt.Sprint(got) != fmt.Sprint(want) {
				return two, fmt.Errorf("GET ancestor(%s h=%d, %s h=%d): returned %d headers %v, expected the path %v", hs, hn.Height, as, an.Height, len(got), got, want)
			}
			for _, h := range list {
				if err := checkHeaderResp(h, byHash[h.Hash]); err != nil {
					return two, err
				}
			}
		case model.IsAncestor(hn, an): // reversed order: 4xx, or the path
			if !isStructured4xx(resp) {
				path := model.Path(hn, an)
				want := make([]string, len(path))
				for i, n := range path {
					want[i] = n.HashStr
				}
				sort.Strings(want)
				if !ok200 || fmt.Sprint(hashesOf(list)) != fmt.Sprint(want) {
					return two, fmt.Errorf("GET ancestor(%s,%s) reversed: status %d body %s, expected structured 4xx (or the path)", hs, as, resp.Code, resp.Body)
				}
			}
		default: // neither descends from the other: must be an error
			if !isStructured4xx(resp) {
				return two, fmt.Errorf("GET ancestor(%s h=%d %s, %s h=%d %s): headers are on different branches, expected a same-chain error, got status %d body %s", hs, hn.Height, hn.Label, as, an.Height, an.Label, resp.Code, resp.Body)
			}
		}
		return two, nil
	case 6:
		var ns []*model.Node
		var hashes []string
		unknown := false
		for _, i := range q.Set {
			n, hs := nodeAt(t, i)
			if n == nil {
				unknown = true
			} else {
				ns = append(ns, n)
			}
			hashes = append(hashes, hs)
		}
		if len(hashes) == 0 {
			return false, nil // empty list is C16's subject
		}
		body, _ := json.Marshal(hashes)
		resp, _ := r.S.Do("POST", "/api/v1/chain/header/commonAncestor", map[string]string{"Content-Type": "application/json"}, body)
		if unknown {
			if resp.Code == 200 {
				return false, fmt.Errorf("POST commonAncestor with an unknown hash: 200 %s", resp.Body)
			}
			return false, nil
		}
		for _, n := range ns {
			if !linkClean(t, n) {
				return false, nil
			}
		}
		want := model.CommonAncestor(ns)
		labels := map[string]bool{}
		for _, n := range ns {
			labels[n.Label] = true
		}
		two := len(labels) > 1
		var hr headerResp
		ok200 := resp.Code == 200 && json.Unmarshal(resp.Body, &hr) == nil && hr.Hash != ""
		if want != nil {
			if !ok200 || hr.Hash != want.HashStr {
				return two, fmt.Errorf("POST commonAncestor %v: status %d body %s, expected %s (height %d)", hashes, resp.Code, resp.Body, want.HashStr, want.Height)
			}
			return two, checkHeaderResp(hr, want)
		}
		if ok200 {
			return two, fmt.Errorf("POST commonAncestor %v: returned %s although no common ancestor exists", hashes, hr.Hash)
		}
		return two, nil
	}
	return false, nil
}

func keys(m map[string]*model.Node) []string {
	var o []string
	for k := range m {
		o = append(o, k[:8])
	}
	sort.Strings(o)
	return o
}

func keys2(m map[string]bool) []string {
	var o []string
	for k := range m {
		o = append(o, k[:8])
	}
	sort.Strings(o)
	return o
}

var c04Dir string

// c04Known recognises open findings of C04.
func c04Known(p *C04Plan, err error) string { return "" }

func runC04(p *C04Plan) (*stats.Case, error) {
	if c04Dir == "" {
		c04Dir = scratchDir("c04")
	}
	stack.RemoveDB(filepath.Join(c04Dir, "bhs.db"))
	r, err := hist.NewRig(c04Dir, p.Hist, stack.Options{})
	if err != nil {
		return nil, fmt.Errorf("infra: %w", err)
	}
	defer r.Close()
	phases := p.Phases
	if phases < 1 {
		phases = 1
	}
	nD, nQ := len(p.Hist.Delivery), len(p.Queries)
	twoBranch := 0
	kinds := map[string]int64{}
	relabelled := 0
	labels := map[string]string{}
	for ph := 0; ph < phases; ph++ {
		for step := ph * nD / phases; step < (ph+1)*nD/phases; step++ {
			idx := p.Hist.Delivery[step]
			if idx < 0 || idx >= len(r.Headers) {
				continue
			}
			if _, _, err := r.Deliver(idx); err != nil {
				return nil, fmt.Errorf("step %d: %w", step, err)
			}
		}
		if err := r.CompareTable(false); err != nil {
			return nil, err
		}
		before, err := r.S.Digest()
		if err != nil {
			return nil, fmt.Errorf("infra: %w", err)
		}
		hiQ := (ph + 1) * nQ / phases
		for i := ph * nQ / phases; i < hiQ; i++ {
			q := p.Queries[i]
			two, err := evalQuery(r, q)
			if err != nil {
				return nil, fmt.Errorf("phase %d query %d %+v: %w", ph, i, q, err)
			}
			if two {
				twoBranch++
			}
			kinds[fmt.Sprintf("q_kind_%d", q.Kind)]++
			if i%8 == 7 || i == hiQ-1 {
				after, _ := r.S.Digest()
				if after != before {
					return nil, fmt.Errorf("store changed by read queries up to %d %+v", i, q)
				}
			}
		}
		if phases > 1 {
			for _, n := range r.T.Order {
				if err := checkServiceViews(r, n); err != nil {
					return nil, fmt.Errorf("phase %d sweep over all stored headers: %w", ph, err)
				}
				if old, ok := labels[n.HashStr]; ok && old != n.Label {
					relabelled++
				}
				labels[n.HashStr] = n.Label
			}
			after, _ := r.S.Digest()
			if after != before {
				return nil, fmt.Errorf("store changed by the sweep of phase %d", ph)
			}
		}
	}
	nonLongestBranches := 0
	for _, n := range r.T.Tips() {
		if n.Label != model.Longest {
			nonLongestBranches++
		}
	}
	cl := histClasses(p.Hist, r.T, 0, 0, 0)
	for k, v := range kinds {
		cl[k] = v
	}
	cl["queries"] = int64(len(p.Queries))
	cl["queries_touching_two_branches"] = int64(twoBranch)
	cl[fmt.Sprintf("phases_%d", phases)] = 1
	if relabelled > 0 {
		cl["header_asked_before_and_after_its_label_changed"] = 1
	}
	nt := nonLongestBranches >= 1 && twoBranch > 0
	return &stats.Case{Sig: stats.Sig(planSig(p.Hist), fmt.Sprint(p.Queries)), Nontrivial: nt, Classes: cl, Sample: p}, nil
}

var propC04 = Prop[*C04Plan]{
	ID:   "C04",
	Name: "TestC04",
	Gen: func(t *rapid.T) *C04Plan {
		h := hist.Gen(t, hist.GenOpts{MaxSpecs: quickThorough(24, 60), MinSpecs: 3, NoForbidden: true})
		p := &C04Plan{Hist: h, Phases: rapid.SampledFrom([]int{1, 1, 2, 3, 4}).Draw(t, "phases")}
		nq := rapid.IntRange(10, quickThorough(50, 120)).Draw(t, "nq")
		for i := 0; i < nq; i++ {
			q := Q{Kind: rapid.SampledFrom([]int{0, 1, 2, 2, 3, 4, 5, 5, 5, 5, 6, 6, 6}).Draw(t, "qk")}
			idx := func(label string) int {
				if rapid.IntRange(0, 11).Draw(t, label+"u") == 0 {
					return -1 - rapid.IntRange(0, 3).Draw(t, label+"un")
				}
				return rapid.IntRange(0, 80).Draw(t, label)
			}
			switch q.Kind {
			case 0, 1:
				q.A = idx("a")
			case 2:
				q.A, q.B = rapid.IntRange(0, 100).Draw(t, "h"), rapid.IntRange(0, 100).Draw(t, "c")
			case 5:
				q.A, q.B = idx("a"), idx("b")
				q.PairK = rapid.SampledFrom([]int{0, 0, 1, 1, 1, 2, 3, 4, 4}).Draw(t, "pk")
				if q.B < 0 && q.PairK != 0 {
					q.B = -q.B
				}
			case 6:
				n := rapid.IntRange(1, 6).Draw(t, "setn")
				for j := 0; j < n; j++ {
					q.Set = append(q.Set, idx("s"))
				}
			}
			p.Queries = append(p.Queries, q)
		}
		return p
	},
	Run:   runC04,
	Known: c04Known,
}

func TestC04(t *testing.T) {
	if propC04.replayEnv(t) {
		return
	}
	propC04.Check(t)
}

func TestC04Regress(t *testing.T) { propC04.Regress(t) }
