package checks

import (
	"bytes"
	"compress/gzip"
	"fmt"
	"io"
	"math/big"
	"os"
	"path/filepath"
	"strconv"
	"strings"
	"testing"
	"time"

	"github.com/bitcoin-sv/block-headers-service/config"
	"github.com/bitcoin-sv/block-headers-service/database"
	"github.com/bitcoin-sv/block-headers-service/internal/chaincfg"
	"github.com/bitcoin-sv/block-headers-service/internal/chaincfg/chainhash"
	"github.com/bitcoin-sv/block-headers-service/verifharness/hist"
	"github.com/bitcoin-sv/block-headers-service/verifharness/model"
	"github.com/bitcoin-sv/block-headers-service/verifharness/stack"
	"github.com/bitcoin-sv/block-headers-service/verifharness/stats"
	"pgregory.net/rapid"
)

// Corruption of the decompressed CSV (one at a time).
type Corruption struct {
	Kind int `json:"kind"` // 0 replace field, 1 drop row, 2 duplicate row, 3 swap with next, 4 add column, 5 remove column, 6 remove header line, 7 truncate gzip, 8 existing-db (no corruption; import into a populated database)
	Row  int `json:"row"`  // data row index (mod rows)
	Col  int `json:"col"`  // column (mod 5)
	Val  int `json:"val"`  // replacement value class
}

// C17Plan: a store, a checkpoint position, a time zone and corruptions.
type C17Plan struct {
	PadRows     int          `json:"padRows,omitempty"` // extend the tip until the longest chain has this many rows (0 = no padding)
	Hist        *hist.Plan   `json:"hist"`
	CheckpointH int          `json:"checkpointH"` // newest checkpoint at height CheckpointH % (tip+1); an older one below it if possible
	TZMinutes   int          `json:"tzMinutes"`
	Corruptions []Corruption `json:"corruptions"`
	// StaleScratch > 0: an earlier export on this machine - of another store whose longest chain has that many more
	// headers - failed after its scratch file was written (target directory missing) and left the file behind
	StaleScratch int `json:"staleScratch,omitempty"`
}

var replVals = []string{"", "abc", "99999999999999999999", "-1", "4294967296", "2147483648", "-2147483649", "1.5", "0x10", " 7"}

type csvRow struct{ f []string }

// refImport is the reference importer: returns (rows as model headers, malformed?, undecidable?).
func refImport(lines []string) (hs []model.Header, malformed bool, either bool) {
	if len(lines) == 0 {
		return nil, true, false
	}
	ncol := len(strings.Split(lines[0], ","))
	var prev [32]byte
	for _, ln := range lines[1:] {
		f := strings.Split(ln, ",")
		if len(f) != ncol || len(f) != 5 {
			return nil, true, false
		}
		v, err := strconv.ParseInt(f[0], 10, 32)
		if err != nil {
			return nil, true, false
		}
		if len(f[1]) > 64 {
			return nil, true, false
		}
		if strings.Trim(f[1], "0123456789abcdefABCDEF") != "" {
			return nil, true, false
		}
		if len(f[1]) != 64 {
			either = true
		}
		nonce, err := strconv.ParseUint(f[2], 10, 32)
		if err != nil {
			return nil, true, false
		}
		bits, err := strconv.ParseUint(f[3], 10, 32)
		if err != nil {
			return nil, true, false
		}
		ts, err := strconv.ParseInt(f[4], 10, 64)
		if err != nil {
			return nil, true, false
		}
		if ts < 0 || ts > 0xffffffff {
			either = true
		}
		var mr [32]byte
		if len(f[1]) == 64 {
			mr, _ = model.ParseHashStr(f[1])
		}
		h := model.Header{Version: int32(v), Prev: prev, Merkle: mr, Timestamp: uint32(ts), Bits: uint32(bits), Nonce: uint32(nonce)}
		hs = append(hs, h)
		prev = h.Hash()
	}
	return hs, false, either
}

func gunzip(path string) ([]byte, error) {
	f, err := os.Open(path)
	if err != nil {
		return nil, err
	}
	defer f.Close()
	zr, err := gzip.NewReader(f)
	if err != nil {
		return nil, err
	}
	return io.ReadAll(zr)
}

func gzipTo(path string, data []byte) error {
	var buf bytes.Buffer
	zw := gzip.NewWriter(&buf)
	_, _ = zw.Write(data)
	_ = zw.Close()
	return os.WriteFile(path, buf.Bytes(), 0o644)
}

var c17Dir string

func runC17(p *C17Plan) (*stats.Case, error) {
	if c17Dir == "" {
		c17Dir = scratchDir("c17")
		if err := os.Chdir(c17Dir); err != nil {
			return nil, fmt.Errorf("infra: %w", err)
		}
		_ = os.Setenv("TMPDIR", c17Dir)
	}
	dir := c17Dir
	srcDB := filepath.Join(dir, "bhs.db")
	stack.RemoveDB(srcDB)
	savedLocal := time.Local
	time.Local = time.FixedZone("verif", p.TZMinutes*60)
	savedCP := config.Checkpoints
	defer func() { time.Local = savedLocal; config.Checkpoints = savedCP }()

	r, err := hist.NewRig(dir, p.Hist, stack.Options{})
	if err != nil {
		return nil, fmt.Errorf("infra: %w", err)
	}
	for step, idx := range p.Hist.Delivery {
		if idx < 0 || idx >= len(r.Headers) {
			continue
		}
		if _, _, err := r.Deliver(idx); err != nil {
			r.Close()
			return nil, fmt.Errorf("step %d: %w", step, err)
		}
	}
	// PadRows: the tip is extended until the exported chain has exactly that many rows (genesis included) - lengths
	// around multiples of the importers' batch size (500)
	for i := 0; p.PadRows > 0 && int(r.T.Best.Height)+1 < p.PadRows; i++ {
		h := model.Header{Version: 1, Prev: r.T.Best.Hash, Merkle: hist.MerkleOf(uint64(3_000_000 + i)), Timestamp: 1650000000 + uint32(i), Bits: 0x1d00ffff, Nonce: uint32(i)}
		res := r.Add(h)
		out, _ := r.T.Submit(h)
		if res.Class != "stored" || out != model.Stored {
			r.Close()
			return nil, fmt.Errorf("padding header %d was not stored: %v %v", i, res.Class, res.Err)
		}
	}
	path := r.T.LongestPath()
	tree := r.T
	srcDigest, _ := r.S.Digest()
	r.Close()

	// checkpoints consistent with the exported chain
	cpH := p.CheckpointH % len(path)
	cps := []chaincfg.Checkpoint{}
	if cpH > 1 {
		h := chainhash.Hash(path[cpH/2].Hash)
		cps = append(cps, chaincfg.Checkpoint{Height: int32(cpH / 2), Hash: &h})
	}
	hh := chainhash.Hash(path[cpH].Hash)
	cps = append(cps, chaincfg.Checkpoint{Height: int32(cpH), Hash: &hh})
	config.Checkpoints = cps

	staleLeft := false
	if p.StaleScratch > 0 {
		stack.RemoveDB(filepath.Join(dir, "prev.db"))
		s2, err := stack.New(stack.Options{Dir: dir, DBFile: "prev.db"})
		if err != nil {
			return nil, fmt.Errorf("infra: %w", err)
		}
		prev := hist.Genesis().Hash
		for i := 0; i < len(path)+p.StaleScratch; i++ {
			h := model.Header{Version: 1, Prev: prev, Merkle: hist.MerkleOf(uint64(5_000_000 + i)), Timestamp: 1650000000 + uint32(i), Bits: 0x1d00ffff, Nonce: uint32(i)}
			if _, err := s2.Services.Chains.Add(hist.ToSource(h)); err != nil {
				s2.Close()
				return nil, fmt.Errorf("infra: earlier store: %w", err)
			}
			prev = h.Hash()
		}
		s2.Close()
		cfg2 := config.GetDefaultAppConfig()
		cfg2.Db.SQLite.FilePath = filepath.Join(dir, "prev.db")
		cfg2.Db.SchemaPath = filepath.Join(stack.RepoRoot(), "database", "migrations")
		cfg2.Db.PreparedDbFilePath = filepath.Join("no-such-directory", "prev.csv.gz")
		if err := database.ExportHeaders(cfg2, nopLogger()); err == nil {
			_ = os.RemoveAll(filepath.Join(dir, "no-such-directory"))
		}
		stack.RemoveDB(filepath.Join(dir, "prev.db"))
		if _, err := os.Stat(filepath.Join(os.TempDir(), "headers.csv")); err == nil {
			staleLeft = true
		}
	}
	// export
	exp := "export.csv.gz"
	_ = os.Remove(filepath.Join(dir, exp))
	cfg := config.GetDefaultAppConfig()
	cfg.Db.SQLite.FilePath = srcDB
	cfg.Db.SchemaPath = filepath.Join(stack.RepoRoot(), "database", "migrations")
	cfg.Db.PreparedDbFilePath = exp
	nop := nopLogger()
	if err := database.ExportHeaders(cfg, nop); err != nil {
		return nil, fmt.Errorf("ExportHeaders failed: %v", err)
	}
	clean, err := gunzip(filepath.Join(dir, exp))
	if err != nil {
		return nil, fmt.Errorf("exported file is not a readable gzip: %v", err)
	}
	cleanLines := strings.Split(strings.TrimRight(string(clean), "\n"), "\n")
	if len(cleanLines)-1 != len(path) {
		return nil, fmt.Errorf("export has %d data rows, the longest chain has %d headers", len(cleanLines)-1, len(path))
	}

	impDB := filepath.Join(dir, "imp.db")
	initPrepared := func(file string) (*stack.Stack, error) {
		return stack.New(stack.Options{Dir: dir, DBFile: "imp.db", Cfg: func(c *config.AppConfig) {
			c.Db.PreparedDb = true
			c.Db.PreparedDbFilePath = file
		}})
	}
	// expected table of a correct import of the clean file
	checkImported := func(s *stack.Stack, want []*model.Node, what string) error {
		rows, err := s.Headers()
		if err != nil {
			return fmt.Errorf("infra: %w", err)
		}
		if len(rows) != len(want) {
			return fmt.Errorf("%s: imported table has %d rows, expected the %d exported longest-chain headers", what, len(rows), len(want))
		}
		by := map[string]stack.Row{}
		for _, row := range rows {
			by[row.Hash] = row
		}
		for _, n := range want {
			row, ok := by[n.HashStr]
			if !ok {
				return fmt.Errorf("%s: exported header %s (height %d) missing after import", what, n.HashStr, n.Height)
			}
			if row.State != model.Longest {
				return fmt.Errorf("%s: imported header %s has state %s", what, n.HashStr, row.State)
			}
			if err := hist.CheckRow(row, n); err != nil {
				return fmt.Errorf("%s: %w", what, err)
			}
		}
		return nil
	}

	// 1. clean round trip
	stack.RemoveDB(impDB)
	s, err := initPrepared(exp)
	if err != nil {
		return nil, fmt.Errorf("import of the freshly exported file failed: %v (chain length %d, checkpoint height %d, tz %+d min)", err, len(path), cpH, p.TZMinutes)
	}
	if err := checkImported(s, path, "clean import"); err != nil {
		s.Close()
		return nil, err
	}
	// restart on the imported database: nothing changes
	d1, _ := s.Digest()
	if err := s.Reopen(); err != nil {
		s.Close()
		return nil, fmt.Errorf("restart on imported database failed: %v", err)
	}
	d2, _ := s.Digest()
	s.Close()
	if d1 != d2 {
		return nil, fmt.Errorf("restart (prepared_db=true) on an imported database modified it")
	}

	classes := map[string]int64{}
	belowCP2ndBatch := false
	for ci, c := range p.Corruptions {
		what := fmt.Sprintf("corruption %d %+v", ci, c)
		if c.Kind == 8 {
			// a database that already holds headers is never overwritten by an import (here: the source store with stale/orphans)
			cp := filepath.Join(dir, "pop.db")
			stack.RemoveDB(cp)
			b, _ := os.ReadFile(srcDB)
			_ = os.WriteFile(cp, b, 0o644)
			sp, err := stack.New(stack.Options{Dir: dir, DBFile: "pop.db", Cfg: func(cc *config.AppConfig) {
				cc.Db.PreparedDb = true
				cc.Db.PreparedDbFilePath = exp
			}})
			if err != nil {
				return nil, fmt.Errorf("%s: start with prepared_db on a populated database failed: %v", what, err)
			}
			dd, _ := sp.Digest()
			sp.Close()
			if dd != srcDigest {
				return nil, fmt.Errorf("%s: a populated database was modified by a start with prepared_db=true", what)
			}
			classes["corr_existing_db"]++
			// ... and so is the smallest populated store there is: a database that was started once without a prepared file
			// holds the genesis header only
			gp := filepath.Join(dir, "gen.db")
			stack.RemoveDB(gp)
			sg, err := stack.New(stack.Options{Dir: dir, DBFile: "gen.db"})
			if err != nil {
				return nil, fmt.Errorf("infra: %w", err)
			}
			gd, _ := sg.Digest()
			sg.Close()
			sg2, err := stack.New(stack.Options{Dir: dir, DBFile: "gen.db", Cfg: func(cc *config.AppConfig) {
				cc.Db.PreparedDb = true
				cc.Db.PreparedDbFilePath = exp
			}})
			if err != nil {
				return nil, fmt.Errorf("%s: start with prepared_db on a database holding the genesis header failed: %v", what, err)
			}
			gd2, _ := sg2.Digest()
			sg2.Close()
			if gd2 != gd {
				return nil, fmt.Errorf("%s: a database holding only the genesis header was overwritten by a start with prepared_db=true", what)
			}
			classes["corr_existing_db_genesis_only"]++
			continue
		}
		lines := append([]string{}, cleanLines...)
		nrows := len(lines) - 1
		row := 1 + c.Row%nrows
		bad := "bad.csv.gz"
		truncated := false
		switch c.Kind {
		case 0:
			f := strings.Split(lines[row], ",")
			col := c.Col % 5
			v := replVals[c.Val%len(replVals)]
			if col == 1 {
				v = []string{"", "zz", strings.Repeat("ab", 33), "abcd", strings.Repeat("0", 64), strings.Repeat("f", 63)}[c.Val%6]
			}
			if f[col] == v {
				continue
			}
			f[col] = v
			lines[row] = strings.Join(f, ",")
		case 1:
			lines = append(lines[:row], lines[row+1:]...)
		case 2:
			lines = append(lines[:row+1], lines[row:]...)
		case 3:
			if row+1 >= len(lines) || lines[row] == lines[row+1] {
				continue
			}
			lines[row], lines[row+1] = lines[row+1], lines[row]
		case 4:
			lines[row] += ",7"
		case 5:
			f := strings.Split(lines[row], ",")
			lines[row] = strings.Join(f[:4], ",")
		case 6:
			lines = lines[1:]
		case 7:
			truncated = true
		}
		classes[fmt.Sprintf("corr_kind_%d", c.Kind)]++
		data := []byte(strings.Join(lines, "\n") + "\n")
		if err := gzipTo(filepath.Join(dir, bad), data); err != nil {
			return nil, fmt.Errorf("infra: %w", err)
		}
		if truncated {
			b, _ := os.ReadFile(filepath.Join(dir, bad))
			cut := len(b) - 1 - c.Row%(len(b)/2+1)
			if cut < 1 {
				cut = 1
			}
			_ = os.WriteFile(filepath.Join(dir, bad), b[:cut], 0o644)
		}
		// reference verdict
		mustFail, either := false, false
		var refChain []model.Header
		if truncated {
			mustFail = true
		} else {
			hs, malformed, eith := refImport(lines)
			refChain, either = hs, eith
			switch {
			case malformed:
				mustFail = true
			case len(hs) <= cpH:
				mustFail = true // checkpoint block absent
			case hs[cpH].Hash() != path[cpH].Hash:
				mustFail = true // block at the newest checkpoint height has a different hash
			}
		}
		if row-1 <= cpH && row-1 >= 500 {
			belowCP2ndBatch = true
		}
		stack.RemoveDB(impDB)
		s, err := initPrepared(bad)
		if err == nil {
			if mustFail && !either {
				s.Close()
				return nil, fmt.Errorf("%s (row %d of %d, checkpoint height %d): start-up accepted a file that must be refused", what, row-1, nrows, cpH)
			}
			if !either && !truncated {
				// accepted: table must be exactly what the file says
				t2 := model.NewTree(model.GenesisFields{Hash: refChain[0].Hash(), H: refChain[0], Work: model.Work(refChain[0].Bits)})
				for _, h := range refChain[1:] {
					t2.Submit(h)
				}
				if err := checkImported(s, t2.LongestPath(), what+" (accepted file)"); err != nil && len(t2.LongestPath()) == len(refChain) {
					s.Close()
					return nil, err
				}
			}
			s.Close()
			classes["corr_accepted"]++
			continue
		}
		classes["corr_refused"]++
		if !mustFail && !either {
			return nil, fmt.Errorf("%s: start-up refused a file that a correct importer accepts: %v", what, err)
		}
		// a later start on the same database must not silently accept what the failed import left behind
		s2, err2 := initPrepared(bad)
		if err2 == nil {
			rows, _ := s2.Headers()
			s2.Close()
			if len(rows) > 0 {
				return nil, fmt.Errorf("%s: the import was refused (%v) but a second start on the same database succeeded and serves %d rows left behind", what, firstLine(err.Error()), len(rows))
			}
		}
		// operator repairs the file: the next start must produce the correct import
		s3, err3 := initPrepared(exp)
		if err3 != nil {
			return nil, fmt.Errorf("%s: after the refused import, a start with the correct file fails: %v", what, err3)
		}
		err = checkImported(s3, path, what+", then restart with the correct file")
		s3.Close()
		if err != nil {
			return nil, err
		}
	}
	_ = tree
	cl := histClasses(p.Hist, tree, 0, 0, 0)
	for k, v := range classes {
		cl[k] = v
	}
	stale, orphan := len(tree.ByLabel(model.Stale)), len(tree.ByLabel(model.Orphan))
	boundary := false
	for _, n := range path[1:] {
		if isBoundary32(uint32(n.H.Version)) || isBoundary32(n.H.Nonce) || isBoundary32(n.H.Timestamp) || isBoundary32(n.H.Bits) {
			boundary = true
		}
	}
	cl["with_boundary_field_on_longest"] = b2i(boundary)
	cl["with_corruption_below_cp_in_2nd_batch"] = b2i(belowCP2ndBatch)
	cl["with_nonzero_tz"] = b2i(p.TZMinutes != 0)
	cl["with_scratch_file_left_by_an_earlier_failed_export"] = b2i(staleLeft)
	nt := (stale > 0 && orphan > 0 && boundary) || belowCP2ndBatch
	return &stats.Case{Sig: stats.Sig(planSig(p.Hist), fieldSig(p.Hist), p.CheckpointH, p.TZMinutes, fmt.Sprint(p.Corruptions)), Nontrivial: nt, Classes: cl, Sample: sampleC17(p)}, nil
}

func sampleC17(p *C17Plan) any {
	if len(p.Hist.Specs) <= 40 {
		return p
	}
	return map[string]any{"specs": len(p.Hist.Specs), "checkpointH": p.CheckpointH, "tzMinutes": p.TZMinutes, "corruptions": p.Corruptions, "note": "long chain; specs elided"}
}

var _ = big.NewInt

var propC17 = Prop[*C17Plan]{
	ID:   "C17",
	Name: "TestC17",
	Gen: func(t *rapid.T) *C17Plan {
		o := hist.GenOpts{MaxSpecs: quickThorough(24, 50), MinSpecs: 2, NoForbidden: true, ExtremeFields: true}
		if rapid.IntRange(0, quickThorough(24, 12)).Draw(t, "longk") == 0 {
			o.LongShare, o.LongMin, o.LongMax = 1, 520, quickThorough(700, 1200)
		}
		p := &C17Plan{Hist: hist.Gen(t, o)}
		if o.LongShare == 0 {
			p.PadRows = rapid.SampledFrom([]int{0, 0, 0, 0, 0, 0, 499, 500, 501, 1000}).Draw(t, "padrows")
		}
		if o.LongShare == 0 && p.PadRows == 0 && rapid.IntRange(0, 3).Draw(t, "stalek") == 0 {
			p.StaleScratch = rapid.IntRange(1, 40).Draw(t, "stale")
		}
		p.CheckpointH = rapid.IntRange(0, 1500).Draw(t, "cp")
		p.TZMinutes = rapid.SampledFrom([]int{0, 0, 60, -300, 330, 765, -720, 840}).Draw(t, "tz")
		n := rapid.IntRange(2, 9).Draw(t, "ncorr")
		for i := 0; i < n; i++ {
			c := Corruption{Kind: rapid.SampledFrom([]int{0, 0, 0, 0, 1, 2, 3, 4, 5, 6, 7, 8}).Draw(t, "ck")}
			c.Row = rapid.IntRange(0, 1500).Draw(t, "crow")
			c.Col = rapid.IntRange(0, 4).Draw(t, "ccol")
			c.Val = rapid.IntRange(0, 9).Draw(t, "cval")
			p.Corruptions = append(p.Corruptions, c)
		}
		if n := len(p.Hist.Specs); n >= 520 {
			// long chain: newest checkpoint near the tip and corruptions inside the second import batch
			p.CheckpointH = n - 12 - rapid.IntRange(0, 5).Draw(t, "cpl")
			for i := range p.Corruptions {
				if i%2 == 0 && p.Corruptions[i].Kind < 7 {
					p.Corruptions[i].Row = 500 + rapid.IntRange(0, n-516).Draw(t, "crow2")
				}
			}
		}
		return p
	},
	Run: runC17,
}

func TestC17(t *testing.T) {
	if propC17.replayEnv(t) {
		return
	}
	propC17.Check(t)
}

func TestC17Regress(t *testing.T) { propC17.Regress(t) }
