package checks

import (
	"encoding/json"
	"errors"
	"fmt"
	"io"
	"net/http"
	"net/http/httptest"
	"net/url"
	"path/filepath"
	"strings"
	"sync"
	"testing"
	"time"

	"github.com/bitcoin-sv/block-headers-service/transports/http/client"
	"github.com/bitcoin-sv/block-headers-service/verifharness/stack"
	"github.com/bitcoin-sv/block-headers-service/verifharness/stats"
	"pgregory.net/rapid"
)

// WhOp is one operation of the webhook state machine.
type WhOp struct {
	Kind string `json:"kind"` // register | delete | notify | restart | query
	URL  int    `json:"url"`  // url index 0..3
	Auth int    `json:"auth"` // 0 bearer, 1 custom header, 2 none
}

// C12Plan: operations, per-call outcomes and configuration.
type C12Plan struct {
	MaxTries int    `json:"maxTries"`
	Real     bool   `json:"real"`     // production HTTP client against an httptest server instead of the scripted client
	Outcomes []int  `json:"outcomes"` // consumed one per delivery: 0=200, 1=201, 2=404, 3=500, 4=transport error, 5=unreadable body
	Ops      []WhOp `json:"ops"`
}

type whCall struct {
	URL     string
	Method  string
	Headers map[string]string
	Body    string
}

type badBody struct{}

func (badBody) Read([]byte) (int, error) { return 0, errors.New("unreadable body") }
func (badBody) Close() error             { return nil }

// scriptedClient implements notification.WebhookTargetClient.
type scriptedClient struct {
	mu    sync.Mutex
	calls []whCall
	next  func() int
	byURL func(u string) (int, bool) // optional: outcome chosen by target URL
	hang  func(u string) <-chan struct{} // optional: the receiver at u does not answer before the channel is closed
}

func (c *scriptedClient) Call(headers map[string]string, method string, u string, body any) (*http.Response, error) {
	b, _ := json.Marshal(body)
	hc := map[string]string{}
	for k, v := range headers {
		hc[k] = v
	}
	c.mu.Lock()
	c.calls = append(c.calls, whCall{URL: u, Method: method, Headers: hc, Body: string(b)})
	o := c.next()
	if c.byURL != nil {
		if o2, ok := c.byURL(u); ok {
			o = o2
		}
	}
	c.mu.Unlock()
	if c.hang != nil {
		if ch := c.hang(u); ch != nil {
			<-ch
		}
	}
	mk := func(code int) *http.Response {
		return &http.Response{StatusCode: code, Body: io.NopCloser(strings.NewReader("resp"))}
	}
	switch o {
	case 0:
		return mk(200), nil
	case 1:
		return mk(201), nil
	case 2:
		return mk(404), nil
	case 3:
		return mk(500), nil
	case 4:
		return nil, errors.New("dial tcp: connection refused (scripted)")
	default:
		return &http.Response{StatusCode: 200, Body: badBody{}}, nil
	}
}

type whModel struct {
	hdr, tok string
	active   bool
	errors   int
	attempts int
	lastCode string
	lastAt   time.Time
}

var c12Dir string

var authHeaderNames = []string{"Authorization", "X-Hook-Auth"}

func runC12(p *C12Plan) (*stats.Case, error) {
	if c12Dir == "" {
		c12Dir = scratchDir("c12")
	}
	stack.RemoveDB(filepath.Join(c12Dir, "bhs.db"))
	oi := 0
	nextOutcome := func() int {
		if len(p.Outcomes) == 0 {
			return 0
		}
		o := p.Outcomes[oi%len(p.Outcomes)]
		oi++
		if p.Real && o == 5 {
			o = 3
		}
		return o
	}
	sc := &scriptedClient{next: nextOutcome}
	// real mode: the production client posts to this server
	var srvMu sync.Mutex
	var srvCalls []whCall
	srv := httptest.NewServer(http.HandlerFunc(func(w http.ResponseWriter, r *http.Request) {
		b, _ := io.ReadAll(r.Body)
		h := map[string]string{}
		for k, v := range r.Header {
			h[k] = strings.Join(v, ",")
		}
		srvMu.Lock()
		srvCalls = append(srvCalls, whCall{URL: r.URL.RequestURI(), Method: r.Method, Headers: h, Body: string(b)})
		o := nextOutcome()
		srvMu.Unlock()
		switch o {
		case 0:
			w.WriteHeader(200)
		case 1:
			w.WriteHeader(201)
		case 2:
			w.WriteHeader(404)
		case 3:
			w.WriteHeader(500)
		default: // transport error: drop the connection
			if hj, ok := w.(http.Hijacker); ok {
				c, _, _ := hj.Hijack()
				_ = c.Close()
			}
			return
		}
		_, _ = w.Write([]byte("resp"))
	}))
	defer srv.Close()
	opts := stack.Options{Dir: c12Dir, MaxTries: p.MaxTries}
	if p.Real {
		opts.WebhookClient = client.NewWebhookTargetClient()
	} else {
		opts.WebhookClient = sc
	}
	s, err := stack.New(opts)
	if err != nil {
		return nil, fmt.Errorf("infra: %w", err)
	}
	defer func() { s.Close() }()
	urlOf := func(i int) string {
		base := "http://hook.invalid"
		if p.Real {
			base = srv.URL
		}
		switch i % 4 {
		case 3:
			return base + "/Hook/0" // differs from URL 0 by letter case only: a webhook of its own
		case 2:
			return base + "/hook/2?sig=a%2Bb%3D&t=1+2" // escapes and a plus sign are part of the registered URL
		}
		return fmt.Sprintf("%s/hook/%d", base, i%4)
	}
	model := map[string]*whModel{}
	order := []string{}
	crossed, resetBetween := false, false
	notifies, pauses := 0, 0
	event := map[string]any{"operation": "ADD", "header": map[string]any{"height": 7, "hash": "00ff"}}
	for i, op := range p.Ops {
		where := fmt.Sprintf("op %d %+v (max_tries %d)", i, op, p.MaxTries)
		u := urlOf(op.URL)
		switch op.Kind {
		case "register":
			var body, hdr, tok string
			switch op.Auth {
			case 0:
				body = fmt.Sprintf(`{"url":%q,"requiredAuth":{"type":"bearer","token":"tok%d","header":""}}`, u, op.URL)
				hdr, tok = "Authorization", fmt.Sprintf("Bearer tok%d", op.URL)
			case 1:
				body = fmt.Sprintf(`{"url":%q,"requiredAuth":{"type":"custom_header","token":"secret%d","header":"X-Hook-Auth"}}`, u, op.URL)
				hdr, tok = "X-Hook-Auth", fmt.Sprintf("secret%d", op.URL)
			default:
				body = fmt.Sprintf(`{"url":%q}`, u)
			}
			resp, pan := s.Do("POST", "/api/v1/webhook", map[string]string{"Content-Type": "application/json"}, []byte(body))
			if pan != nil || resp.Code >= 500 {
				return nil, fmt.Errorf("%s: register answered %d %s (panic %v)", where, resp.Code, resp.Body, pan)
			}
			m := model[u]
			switch {
			case m == nil:
				if resp.Code != 200 {
					return nil, fmt.Errorf("%s: registering a new webhook answered %d %s", where, resp.Code, resp.Body)
				}
				model[u] = &whModel{hdr: hdr, tok: tok, active: true}
				order = append(order, u)
			case m.active:
				if resp.Code < 400 {
					return nil, fmt.Errorf("%s: re-registering an ACTIVE webhook was not refused (%d %s)", where, resp.Code, resp.Body)
				}
			default:
				if resp.Code != 200 {
					return nil, fmt.Errorf("%s: re-registering an INACTIVE webhook answered %d %s", where, resp.Code, resp.Body)
				}
				m.active, m.errors = true, 0
			}
		case "delete":
			resp, pan := s.Do("DELETE", "/api/v1/webhook?url="+url.QueryEscape(u), nil, nil)
			if pan != nil || resp.Code >= 500 {
				return nil, fmt.Errorf("%s: delete answered %d %s (panic %v)", where, resp.Code, resp.Body, pan)
			}
			if model[u] != nil {
				if resp.Code != 200 {
					return nil, fmt.Errorf("%s: deleting an existing webhook answered %d %s", where, resp.Code, resp.Body)
				}
				delete(model, u)
			} else if resp.Code != 404 {
				return nil, fmt.Errorf("%s: deleting an unknown webhook answered %d %s", where, resp.Code, resp.Body)
			}
		case "pause":
			// time passes between two attempts: the reported time of the last attempt must move with the attempts
			time.Sleep(1200 * time.Millisecond)
			pauses++
		case "restart":
			if err := s.Reopen(); err != nil {
				return nil, fmt.Errorf("%s: restart failed: %v", where, err)
			}
		case "notify":
			notifies++
			sc.mu.Lock()
			sc.calls = nil
			sc.mu.Unlock()
			srvMu.Lock()
			srvCalls = nil
			srvMu.Unlock()
			oiBefore := oi
			t0 := time.Now()
			s.Services.Webhooks.Notify(event)
			// expected deliveries: one per active webhook; the order of calls follows the repository's order, which the
			// statement does not fix - outcomes are matched to the calls actually made
			var calls []whCall
			if p.Real {
				srvMu.Lock()
				calls = append(calls, srvCalls...)
				srvMu.Unlock()
			} else {
				sc.mu.Lock()
				calls = append(calls, sc.calls...)
				sc.mu.Unlock()
			}
			want := 0
			for _, m := range model {
				if m.active {
					want++
				}
			}
			outcomes := map[string]int{}
			seen := map[string]int{}
			if !p.Real {
				for k, c := range calls {
					seen[c.URL]++
					outcomes[c.URL] = resolveOutcome(p, oiBefore+k)
				}
			} else {
				// real mode: the server sees only deliveries that reached it; outcomes in arrival order
				for k, c := range calls {
					full := srv.URL + c.URL
					seen[full]++
					outcomes[full] = resolveOutcome(p, oiBefore+k)
				}
			}
			for cu, n := range seen {
				m := model[cu]
				if m == nil || !m.active {
					return nil, fmt.Errorf("%s: a deleted or inactive webhook %s was called", where, cu)
				}
				if n != 1 {
					return nil, fmt.Errorf("%s: webhook %s was called %d times for one event", where, cu, n)
				}
			}
			for _, c := range calls {
				full := c.URL
				if p.Real {
					full = srv.URL + c.URL
				}
				m := model[full]
				if c.Method != "POST" {
					return nil, fmt.Errorf("%s: webhook called with method %s", where, c.Method)
				}
				var got any
				wantB, _ := json.Marshal(event)
				var wantV any
				_ = json.Unmarshal(wantB, &wantV)
				if json.Unmarshal([]byte(c.Body), &got) != nil || fmt.Sprint(got) != fmt.Sprint(wantV) {
					return nil, fmt.Errorf("%s: webhook body %q is not the event", where, c.Body)
				}
				if err := checkWebhookHeaders(c.Headers, m, p.Real); err != nil {
					return nil, fmt.Errorf("%s: webhook %s: %w", where, full, err)
				}
			}
			for u2, m := range model {
				if !m.active {
					continue
				}
				if seen[u2] != 1 {
					return nil, fmt.Errorf("%s: active webhook %s (auth header %q) did not receive the event (%d of %d active webhooks were called)", where, u2, m.hdr, len(calls), want)
				}
				o := outcomes[u2]
				m.attempts++
				m.lastAt = t0
				if o == 0 {
					if m.errors > 0 {
						resetBetween = true
					}
					m.errors = 0
					m.lastCode = "200"
				} else {
					m.errors++
					m.lastCode = map[int]string{1: "201", 2: "404", 3: "500", 4: "", 5: ""}[o]
					if m.errors >= p.MaxTries {
						m.active = false
						if m.errors >= 2 {
							crossed = true
						}
					}
				}
			}
		}
		// query endpoint reports the model state of every known webhook (after every step)
		for _, u2 := range order {
			m := model[u2]
			resp, _ := s.Do("GET", "/api/v1/webhook?url="+url.QueryEscape(u2), nil, nil)
			if m == nil {
				if resp.Code != 404 {
					return nil, fmt.Errorf("%s: query of deleted webhook %s answered %d", where, u2, resp.Code)
				}
				continue
			}
			var w struct {
				URL               string    `json:"url"`
				LastEmitStatus    string    `json:"lastEmitStatus"`
				LastEmitTimestamp time.Time `json:"lastEmitTimestamp"`
				ErrorsCount       int       `json:"errorsCount"`
				Active            bool      `json:"active"`
			}
			if resp.Code != 200 || json.Unmarshal(resp.Body, &w) != nil {
				return nil, fmt.Errorf("%s: query of webhook %s answered %d %s", where, u2, resp.Code, resp.Body)
			}
			if w.Active != m.active || w.ErrorsCount != m.errors {
				return nil, fmt.Errorf("%s: webhook %s reported active=%v errorsCount=%d, expected active=%v errorsCount=%d (max_tries %d)", where, u2, w.Active, w.ErrorsCount, m.active, m.errors, p.MaxTries)
			}
			if m.attempts > 0 {
				if w.LastEmitStatus == "" || (m.lastCode != "" && !strings.Contains(w.LastEmitStatus, m.lastCode)) {
					return nil, fmt.Errorf("%s: webhook %s reports lastEmitStatus %q after %d attempts (last outcome %q)", where, u2, w.LastEmitStatus, m.attempts, m.lastCode)
				}
				if w.LastEmitTimestamp.Before(m.lastAt.Add(-1*time.Second)) || w.LastEmitTimestamp.After(time.Now().Add(2*time.Second)) {
					return nil, fmt.Errorf("%s: webhook %s reports lastEmitTimestamp %v, last attempt at %v", where, u2, w.LastEmitTimestamp, m.lastAt)
				}
			}
		}
	}
	_ = pauses
	cl := map[string]int64{"sequences": 1, "ops": int64(len(p.Ops)), "notifies": int64(notifies), "real_client": b2i(p.Real),
		"with_threshold_crossed_after_ge2": b2i(crossed), "with_reset_between_failures": b2i(resetBetween)}
	return &stats.Case{Sig: stats.Sig(p.MaxTries, p.Real, fmt.Sprint(p.Outcomes), fmt.Sprint(p.Ops)), Nontrivial: crossed || resetBetween, Classes: cl, Sample: p}, nil
}

func resolveOutcome(p *C12Plan, idx int) int {
	if len(p.Outcomes) == 0 {
		return 0
	}
	o := p.Outcomes[idx%len(p.Outcomes)]
	if p.Real && o == 5 {
		o = 3
	}
	return o
}

func checkWebhookHeaders(h map[string]string, m *whModel, real bool) error {
	get := func(name string) (string, bool) {
		for k, v := range h {
			if strings.EqualFold(k, name) {
				return v, true
			}
		}
		return "", false
	}
	if ct, _ := get("Content-Type"); !strings.HasPrefix(ct, "application/json") {
		return fmt.Errorf("Content-Type %q", ct)
	}
	for _, name := range authHeaderNames {
		v, ok := get(name)
		switch {
		case strings.EqualFold(name, m.hdr):
			if !ok || v != m.tok {
				return fmt.Errorf("authorisation header %s = %q, configured %q", name, v, m.tok)
			}
		case ok:
			return fmt.Errorf("unexpected authorisation header %s = %q (configured header %q)", name, v, m.hdr)
		}
	}
	if !real {
		// scripted client sees the exact header map: Content-Type plus exactly the configured header
		want := 1
		if m.hdr != "" {
			want = 2
		}
		if len(h) != want {
			return fmt.Errorf("request carries %d headers %v, expected Content-Type plus exactly the configured authorisation header (%q)", len(h), h, m.hdr)
		}
	}
	return nil
}

var propC12 = Prop[*C12Plan]{
	ID:   "C12",
	Name: "TestC12",
	Gen: func(t *rapid.T) *C12Plan {
		p := &C12Plan{MaxTries: rapid.IntRange(1, 5).Draw(t, "maxtries"), Real: rapid.IntRange(0, 3).Draw(t, "real") == 0}
		no := rapid.IntRange(1, 12).Draw(t, "nout")
		for i := 0; i < no; i++ {
			p.Outcomes = append(p.Outcomes, rapid.SampledFrom([]int{0, 0, 0, 1, 2, 3, 3, 4, 5}).Draw(t, "out"))
		}
		n := rapid.IntRange(3, quickThorough(30, 60)).Draw(t, "nops")
		for i := 0; i < n; i++ {
			op := WhOp{Kind: rapid.SampledFrom([]string{"register", "register", "register", "delete", "notify", "notify", "notify", "notify", "notify", "notify", "restart", "query"}).Draw(t, "kind")}
			op.URL = rapid.IntRange(0, 3).Draw(t, "url")
			op.Auth = rapid.IntRange(0, 2).Draw(t, "auth")
			p.Ops = append(p.Ops, op)
		}
		if rapid.IntRange(0, 15).Draw(t, "pausek") == 0 && n >= 4 {
			// one pause of 1.2 s somewhere in the middle, followed by a delivery and a query
			at := rapid.IntRange(1, n-2).Draw(t, "pauseat")
			u := rapid.IntRange(0, 3).Draw(t, "pauseurl")
			ins := []WhOp{{Kind: "pause"}, {Kind: "notify", URL: u}, {Kind: "query", URL: u}}
			p.Ops = append(p.Ops[:at], append(ins, p.Ops[at:]...)...)
		}
		return p
	},
	Run: runC12,
}

func TestC12(t *testing.T) {
	if propC12.replayEnv(t) {
		return
	}
	propC12.Check(t)
}

func TestC12Regress(t *testing.T) { propC12.Regress(t) }
