package checks

import (
	"errors"
	"fmt"
	"net"
	"sync"
	"testing"
	"time"

	"github.com/bitcoin-sv/block-headers-service/transports/p2p/connmgr"
	"github.com/bitcoin-sv/block-headers-service/verifharness/stats"
	"github.com/rs/zerolog"
	"pgregory.net/rapid"
)

// CMOp is one operation against the connection manager.
type CMOp struct {
	Kind string `json:"kind"` // run | disconnect
	Arg  int    `json:"arg"`  // run: milliseconds (1-20); disconnect: index among live connections
}

// C18bPlan: target, address universe, dial outcomes and operations.
type C18bPlan struct {
	Target   int    `json:"target"`
	Addrs    int    `json:"addrs"`
	Outcomes []int  `json:"outcomes"` // cyclic per dial: 0 success, 1 refusal
	Ops      []CMOp `json:"ops"`
	AddrFail int    `json:"addrFail"` // GetNewAddress fails every AddrFail-th call (0 = never)
}

type pipeConn struct {
	net.Conn
	peer net.Conn
}

func runC18b(p *C18bPlan) (*stats.Case, error) {
	var mu sync.Mutex
	live := map[uint64]net.Conn{}
	var order []uint64
	maxLive, dials, failures, addrCalls := 0, 0, 0, 0
	banned := map[string]bool{}
	phaseSuccess := false
	oi := 0
	nop := zerolog.Nop()
	next := 0
	cfg := &connmgr.Config{
		TargetOutbound: uint32(p.Target),
		RetryDuration:  time.Millisecond,
		Logger:         &nop,
		GetNewAddress: func() (net.Addr, error) {
			mu.Lock()
			defer mu.Unlock()
			addrCalls++
			if p.AddrFail > 0 && addrCalls%p.AddrFail == 0 && !phaseSuccess {
				return nil, errors.New("no address right now")
			}
			for i := 0; i < p.Addrs; i++ {
				a := &net.TCPAddr{IP: net.IPv4(10, 0, byte(next%p.Addrs), 1), Port: 8333}
				next++
				if !banned[a.String()] {
					return a, nil
				}
			}
			return nil, errors.New("no valid connect address")
		},
		BanAddress: func(a string) {
			mu.Lock()
			banned[a] = true
			mu.Unlock()
		},
		Dial: func(a net.Addr) (net.Conn, error) {
			mu.Lock()
			dials++
			o := 0
			if !phaseSuccess && len(p.Outcomes) > 0 {
				o = p.Outcomes[oi%len(p.Outcomes)]
				oi++
			}
			if o != 0 {
				failures++
			}
			mu.Unlock()
			if o != 0 {
				return nil, errors.New("connection refused")
			}
			c1, c2 := net.Pipe()
			return &pipeConn{Conn: c1, peer: c2}, nil
		},
	}
	var cm *connmgr.ConnManager
	cfg.OnConnection = func(c *connmgr.ConnReq, conn net.Conn, _ *zerolog.Logger) {
		mu.Lock()
		live[c.ID()] = conn
		order = append(order, c.ID())
		if len(live) > maxLive {
			maxLive = len(live)
		}
		mu.Unlock()
	}
	var err error
	cm, err = connmgr.New(cfg)
	if err != nil {
		return nil, fmt.Errorf("infra: %w", err)
	}
	cm.Start()
	defer func() { cm.Stop() }()
	disconnects := 0
	for _, op := range p.Ops {
		switch op.Kind {
		case "run":
			time.Sleep(time.Duration(1+op.Arg%20) * time.Millisecond)
		case "disconnect":
			mu.Lock()
			var id uint64
			found := false
			if len(live) > 0 {
				k := op.Arg % len(live)
				i := 0
				for _, cid := range order {
					if _, ok := live[cid]; ok {
						if i == k {
							id, found = cid, true
							break
						}
						i++
					}
				}
				if found {
					delete(live, id)
				}
			}
			mu.Unlock()
			if found {
				disconnects++
				cm.Disconnect(id)
			}
		}
		mu.Lock()
		ml := maxLive
		mu.Unlock()
		if ml > p.Target {
			return nil, fmt.Errorf("%d simultaneously established outbound connections, target %d", ml, p.Target)
		}
	}
	// final phase: every dial succeeds; some address must still be usable
	mu.Lock()
	phaseSuccess = true
	mu.Unlock()
	// a dial that was decided as "refused" just before the switch may still report its failure (and be the 25th one that
	// bans its address): the set of usable addresses is read after those have settled
	time.Sleep(40 * time.Millisecond)
	mu.Lock()
	usable := 0
	for i := 0; i < p.Addrs; i++ {
		if !banned[(&net.TCPAddr{IP: net.IPv4(10, 0, byte(i), 1), Port: 8333}).String()] {
			usable++
		}
	}
	d0 := dials
	mu.Unlock()
	count := func() int {
		mu.Lock()
		defer mu.Unlock()
		return len(live)
	}
	if usable > 0 {
		deadline := time.Now().Add(3 * time.Second)
		for time.Now().Before(deadline) && count() < p.Target {
			time.Sleep(2 * time.Millisecond)
		}
		if n := count(); n < p.Target {
			mu.Lock()
			d1 := dials
			nb := len(banned)
			mu.Unlock()
			return nil, fmt.Errorf("the connection manager holds %d of %d target connections 3 s after every dial started to succeed (%d of %d addresses usable, %d banned, %d dials in that phase, %d failures and %d disconnects before)", n, p.Target, usable, p.Addrs, nb, d1-d0, failures, disconnects)
		}
		time.Sleep(30 * time.Millisecond)
		if n := count(); n != p.Target {
			return nil, fmt.Errorf("after reaching the target the manager holds %d connections, target %d", n, p.Target)
		}
	}
	mu.Lock()
	ml := maxLive
	mu.Unlock()
	if ml > p.Target {
		return nil, fmt.Errorf("%d simultaneously established outbound connections, target %d", ml, p.Target)
	}
	cl := map[string]int64{"sequences": 1, "dials": int64(dials), "dial_failures": int64(failures), "disconnects": int64(disconnects), "addresses_banned": int64(len(banned)), "with_ban": b2i(len(banned) > 0)}
	nt := failures >= 3 && disconnects >= 1
	return &stats.Case{Sig: stats.Sig(fmt.Sprintf("%+v", *p)), Nontrivial: nt, Classes: cl, Sample: p}, nil
}

var propC18b = Prop[*C18bPlan]{
	ID:   "C18",
	Name: "TestC18ConnMgr",
	Gen: func(t *rapid.T) *C18bPlan {
		p := &C18bPlan{Target: rapid.IntRange(1, 8).Draw(t, "target"), Addrs: rapid.IntRange(2, 12).Draw(t, "addrs"), AddrFail: rapid.SampledFrom([]int{0, 0, 3, 7}).Draw(t, "addrfail")}
		n := rapid.IntRange(1, 10).Draw(t, "nout")
		refuse := rapid.IntRange(0, 10).Draw(t, "refuse")
		for i := 0; i < n; i++ {
			o := 0
			if rapid.IntRange(0, 10).Draw(t, "o") < refuse {
				o = 1
			}
			p.Outcomes = append(p.Outcomes, o)
		}
		m := rapid.IntRange(2, 40).Draw(t, "nops")
		for i := 0; i < m; i++ {
			op := CMOp{Kind: rapid.SampledFrom([]string{"run", "run", "disconnect"}).Draw(t, "kind"), Arg: rapid.IntRange(0, 30).Draw(t, "arg")}
			p.Ops = append(p.Ops, op)
		}
		return p
	},
	Run: runC18b,
}

func TestC18ConnMgr(t *testing.T) {
	if propC18b.replayEnv(t) {
		return
	}
	propC18b.Check(t)
}

func TestC18Regress(t *testing.T) { propC18b.Regress(t) }
