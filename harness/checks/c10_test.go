package checks

import (
	"encoding/json"
	"fmt"
	"net/http/httptest"
	"net/url"
	"path/filepath"
	"strings"
	"testing"
	"time"

	"github.com/bitcoin-sv/block-headers-service/verifharness/stack"
	"github.com/bitcoin-sv/block-headers-service/verifharness/stats"
	"github.com/centrifugal/centrifuge-go"
	"pgregory.net/rapid"
)

// TokOp is one operation of the token state machine.
type TokOp struct {
	Kind string `json:"kind"` // create | revoke | http | ws | restart | rotate
	Tok  int    `json:"tok"`  // >=0 index into issued tokens (mod len); -1 unknown; -2 admin; -3 the empty token
	// Mut (revoke only): 0 = the token itself; otherwise a never-issued look-alike derived from it: 1 letter case swapped,
	// 2 first 8 characters + "%", 3 "%", 4 underscores of the same length, 5 one character replaced by "_", 6 "%" + last 8
	Mut int `json:"mut,omitempty"`
	Rt  int `json:"rt"` // route selector for http
}

// C10Plan is a sequence of operations.
type C10Plan struct {
	Ops []TokOp `json:"ops"`
	// Sparse: tokens are presented only where the plan says so (no sweep over all tokens after every step, no
	// non-admin pre-check), so that a token can be created, survive a restart and be revoked without having been
	// used in between; the sweep runs once at the end.
	Sparse bool `json:"sparse,omitempty"`
}

// wsConnect tries the websocket connect handshake with a token.
// result: "ok", "rejected" or "inconclusive".
func wsConnect(baseURL, token string) string {
	u := "ws" + strings.TrimPrefix(baseURL, "http") + "/connection/websocket"
	c := centrifuge.NewJsonClient(u, centrifuge.Config{Token: token})
	defer c.Close()
	res := make(chan string, 4)
	c.OnConnected(func(centrifuge.ConnectedEvent) { res <- "ok" })
	c.OnDisconnected(func(e centrifuge.DisconnectedEvent) {
		res <- "rejected"
	})
	c.OnError(func(centrifuge.ErrorEvent) {})
	if err := c.Connect(); err != nil {
		return "inconclusive"
	}
	select {
	case r := <-res:
		return r
	case <-time.After(5 * time.Second):
		return "inconclusive"
	}
}

var c10Dir string

const c10Admin = "c10-admin-token-0123456789"

func runC10(p *C10Plan) (*stats.Case, error) {
	if c10Dir == "" {
		c10Dir = scratchDir("c10")
	}
	stack.RemoveDB(filepath.Join(c10Dir, "bhs.db"))
	s, err := stack.New(stack.Options{Dir: c10Dir, UseAuth: true, AdminToken: c10Admin, Websocket: true})
	admin := c10Admin // the configured admin token (a "rotate" step restarts the service with another one)
	var formerAdmins []string
	if err != nil {
		return nil, fmt.Errorf("infra: %w", err)
	}
	srv := httptest.NewServer(s.Engine)
	defer func() { srv.Close(); s.Close() }()

	var issued []string
	lookAlikes := 0
	live := map[string]bool{}
	everRevoked := map[string]bool{}
	pick := func(i int) string {
		switch {
		case i == -2:
			return admin
		case i == -3:
			return "" // no token at all (websocket connect without a token, "Bearer " on HTTP)
		case i < 0 || len(issued) == 0:
			return "unknowntoken00000000000000000000"
		}
		return issued[i%len(issued)]
	}
	auth := func(tok string) map[string]string { return map[string]string{"Authorization": "Bearer " + tok} }
	httpRoutes := []string{"/api/v1/access", "/api/v1/chain/tip/longest", "/api/v1/network/peer/count", "/api/v1/chain/merkleroot?batchSize=1"}
	// checkHTTP verifies the authentication verdict of one token.
	checkHTTP := func(tok string, rt int, where string) error {
		path := httpRoutes[rt%len(httpRoutes)]
		resp, pan := s.Do("GET", path, auth(tok), nil)
		if pan != nil {
			return fmt.Errorf("%s: panic %v", where, pan)
		}
		switch {
		case tok == admin:
			if resp.Code != 200 {
				return fmt.Errorf("%s: admin token got %d on %s: %s", where, resp.Code, path, resp.Body)
			}
			if path == "/api/v1/access" && !strings.Contains(string(resp.Body), `"isAdmin":true`) {
				return fmt.Errorf("%s: admin token not reported as admin: %s", where, resp.Body)
			}
		case live[tok]:
			if resp.Code != 200 {
				return fmt.Errorf("%s: live token %s got %d on %s: %s", where, tok, resp.Code, path, resp.Body)
			}
			if path == "/api/v1/access" {
				var tr struct {
					Token   string `json:"token"`
					IsAdmin bool   `json:"isAdmin"`
				}
				if json.Unmarshal(resp.Body, &tr) != nil || tr.Token != tok || tr.IsAdmin {
					return fmt.Errorf("%s: GET /access for live token %s: %s", where, tok, resp.Body)
				}
			}
			// a non-admin token cannot create or revoke tokens
		default:
			if resp.Code != 401 {
				state := "unknown"
				if everRevoked[tok] {
					state = "revoked"
				}
				return fmt.Errorf("%s: %s token %s got %d on %s (expected 401): %s", where, state, tok, resp.Code, path, resp.Body)
			}
		}
		return nil
	}
	checkWS := func(tok string, where string) (bool, error) {
		want := "rejected"
		if tok == admin || live[tok] {
			want = "ok"
		}
		got := wsConnect(srv.URL, tok)
		if got == "inconclusive" {
			got = wsConnect(srv.URL, tok)
		}
		if got == "inconclusive" {
			stats.Count("ws_inconclusive", 1)
			return false, nil
		}
		if got != want {
			return true, fmt.Errorf("%s: websocket connect with token %s: %s, expected %s", where, tok, got, want)
		}
		return true, nil
	}
	sawCRA, restartBetween := false, false // create->revoke->auth of the same token; restart between two of them
	phase := map[string]int{}              // token -> 1 created, 2 revoked, 3 authenticated after revoke
	restartsSeen := map[string]int{}
	restarts := 0
	wsChecks := 0
	lookAlikeCreds := 0
	for i, op := range p.Ops {
		where := fmt.Sprintf("op %d %+v", i, op)
		switch op.Kind {
		case "create":
			resp, _ := s.Do("POST", "/api/v1/access", auth(admin), nil)
			var tr struct {
				Token   string `json:"token"`
				IsAdmin bool   `json:"isAdmin"`
			}
			if resp.Code != 200 || json.Unmarshal(resp.Body, &tr) != nil || tr.Token == "" {
				return nil, fmt.Errorf("%s: token creation failed: %d %s", where, resp.Code, resp.Body)
			}
			if tr.IsAdmin || tr.Token == admin {
				return nil, fmt.Errorf("%s: issued token is admin", where)
			}
			for _, o := range issued {
				if o == tr.Token {
					return nil, fmt.Errorf("%s: issued token %s is not distinct", where, tr.Token)
				}
			}
			issued = append(issued, tr.Token)
			live[tr.Token] = true
			phase[tr.Token], restartsSeen[tr.Token] = 1, restarts
			// a user token must not be able to create tokens
			if r2, _ := s.Do("POST", "/api/v1/access", auth(tr.Token), nil); r2.Code != 401 {
				return nil, fmt.Errorf("%s: non-admin token created a token (%d)", where, r2.Code)
			}
		case "revoke":
			tok := pick(op.Tok)
			if op.Mut != 0 {
				tok = lookAlike(tok, op.Mut)
				if live[tok] || tok == admin {
					break // the look-alike happens to be a real token: nothing to learn
				}
				lookAlikes++
			}
			// a user token must not be able to revoke
			if !p.Sparse && len(issued) > 0 && live[issued[0]] && tok != issued[0] {
				if r2, _ := s.Do("DELETE", "/api/v1/access/"+url.PathEscape(tok), auth(issued[0]), nil); r2.Code != 401 {
					return nil, fmt.Errorf("%s: non-admin token revoked a token (%d)", where, r2.Code)
				}
			}
			resp, pan := s.Do("DELETE", "/api/v1/access/"+url.PathEscape(tok), auth(admin), nil)
			if pan != nil || resp.Code >= 500 {
				return nil, fmt.Errorf("%s: revoke answered %d %s (panic %v)", where, resp.Code, resp.Body, pan)
			}
			if live[tok] {
				if resp.Code != 200 {
					return nil, fmt.Errorf("%s: revoking live token answered %d %s", where, resp.Code, resp.Body)
				}
				delete(live, tok)
				everRevoked[tok] = true
				if phase[tok] == 1 {
					phase[tok] = 2
					if restarts > restartsSeen[tok] {
						restartBetween = true
					}
					restartsSeen[tok] = restarts
				}
			}
		case "http":
			tok := pick(op.Tok)
			if op.Mut != 0 && op.Mut != 8 { // (a line feed cannot travel in a header value)
				tok = lookAlike(tok, op.Mut)
				lookAlikeCreds++
			}
			if err := checkHTTP(tok, op.Rt, where); err != nil {
				return nil, err
			}
			if phase[tok] == 2 {
				sawCRA = true
				if restarts > restartsSeen[tok] {
					restartBetween = true
				}
			}
		case "ws":
			tok := pick(op.Tok)
			if op.Mut != 0 {
				tok = lookAlike(tok, op.Mut)
				lookAlikeCreds++
			}
			done, err := checkWS(tok, where)
			if err != nil {
				return nil, err
			}
			if done {
				wsChecks++
				if phase[tok] == 2 {
					sawCRA = true
				}
			}
		case "rotate":
			// the operator configures another admin token and restarts: the former one is neither the configured admin token
			// nor a token that was ever issued
			formerAdmins = append(formerAdmins, admin)
			admin = fmt.Sprintf("c10-admin-rotated-%d-%d", len(formerAdmins), i)
			s.Opts.AdminToken = admin
			srv.Close()
			if err := s.Reopen(); err != nil {
				return nil, fmt.Errorf("%s: restart failed: %v", where, err)
			}
			srv = httptest.NewServer(s.Engine)
			restarts++
		case "restart":
			srv.Close()
			if err := s.Reopen(); err != nil {
				return nil, fmt.Errorf("%s: restart failed: %v", where, err)
			}
			srv = httptest.NewServer(s.Engine)
			restarts++
		}
		// invariant after every step: every token ever issued authenticates iff live; admin always
		if p.Sparse && i != len(p.Ops)-1 {
			continue
		}
		for j, tok := range issued {
			if err := checkHTTP(tok, j+i, where+" / invariant"); err != nil {
				return nil, err
			}
			if phase[tok] == 2 {
				sawCRA = true
				if restarts > restartsSeen[tok] {
					restartBetween = true
				}
			}
		}
		if err := checkHTTP(admin, i, where+" / invariant"); err != nil {
			return nil, err
		}
		for _, fa := range formerAdmins {
			if err := checkHTTP(fa, i, where+" / invariant (former admin token)"); err != nil {
				return nil, err
			}
		}
	}
	// final: websocket verdict of every token and the admin
	for _, tok := range append(append(append([]string{}, issued...), formerAdmins...), admin, "unknowntoken00000000000000000000") {
		done, err := checkWS(tok, "final")
		if err != nil {
			return nil, err
		}
		if done {
			wsChecks++
		}
	}
	cl := map[string]int64{"revocations_of_look_alikes": int64(lookAlikes), "look_alike_credentials_presented": int64(lookAlikeCreds), "sequences": 1, "ops": int64(len(p.Ops)), "tokens_issued": int64(len(issued)), "ws_checks": int64(wsChecks), "restarts": int64(restarts),
		"with_create_revoke_auth": b2i(sawCRA), "with_restart_between": b2i(restartBetween), "sparse_presentation": b2i(p.Sparse), "admin_token_rotations": int64(len(formerAdmins))}
	return &stats.Case{Sig: stats.Sig(fmt.Sprint(p.Ops)), Nontrivial: sawCRA && restartBetween, Classes: cl, Sample: p}, nil
}

// lookAlike derives a never-issued value from a token: what SQL pattern matching, case folding or prefix matching would
// confuse with it.
func lookAlike(tok string, mut int) string {
	switch mut {
	case 1:
		b := []byte(tok)
		for i, c := range b {
			switch {
			case c >= 'a' && c <= 'z':
				b[i] = c - 32
			case c >= 'A' && c <= 'Z':
				b[i] = c + 32
			}
		}
		return string(b)
	case 2:
		if len(tok) > 8 {
			return tok[:8] + "%"
		}
		return tok + "%"
	case 3:
		return "%"
	case 4:
		return strings.Repeat("_", len(tok))
	case 5:
		if len(tok) > 3 {
			return tok[:3] + "_" + tok[4:]
		}
		return "_"
	case 7:
		return "\t" + tok
	case 8:
		return tok + "\n"
	case 9:
		return " " + tok
	default:
		if len(tok) > 8 {
			return "%" + tok[len(tok)-8:]
		}
		return "%" + tok
	}
}

var propC10 = Prop[*C10Plan]{
	ID:   "C10",
	Name: "TestC10",
	Gen: func(t *rapid.T) *C10Plan {
		n := rapid.IntRange(5, quickThorough(30, 60)).Draw(t, "nops")
		p := &C10Plan{Sparse: rapid.Bool().Draw(t, "sparse")}
		for i := 0; i < n; i++ {
			op := TokOp{Kind: rapid.SampledFrom([]string{"create", "create", "create", "revoke", "revoke", "revoke", "http", "http", "http", "ws", "restart", "restart", "rotate"}).Draw(t, "kind")}
			switch k := rapid.IntRange(0, 9).Draw(t, "tk"); {
			case k == 0:
				op.Tok = -1
			case k == 1:
				op.Tok = -2
			case k == 2 && op.Kind != "revoke":
				op.Tok = -3
			default:
				op.Tok = rapid.IntRange(0, 12).Draw(t, "ti")
			}
			op.Rt = rapid.IntRange(0, 3).Draw(t, "rt")
			if op.Kind == "revoke" && rapid.IntRange(0, 2).Draw(t, "mutk") == 0 {
				op.Mut = rapid.IntRange(1, 9).Draw(t, "mut")
			}
			if (op.Kind == "http" || op.Kind == "ws") && rapid.IntRange(0, 3).Draw(t, "mutc") == 0 {
				op.Mut = rapid.IntRange(1, 9).Draw(t, "mutcv")
			}
			p.Ops = append(p.Ops, op)
		}
		return p
	},
	Run: runC10,
}

func TestC10(t *testing.T) {
	if propC10.replayEnv(t) {
		return
	}
	propC10.Check(t)
}

func TestC10Regress(t *testing.T) { propC10.Regress(t) }
