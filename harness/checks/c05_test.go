package checks

import (
	"fmt"
	"os"
	"path/filepath"
	"sort"
	"strings"
	"testing"
	"time"

	"github.com/bitcoin-sv/block-headers-service/repository"
	"github.com/bitcoin-sv/block-headers-service/verifharness/hist"
	"github.com/bitcoin-sv/block-headers-service/verifharness/interpose"
	"github.com/bitcoin-sv/block-headers-service/verifharness/model"
	"github.com/bitcoin-sv/block-headers-service/verifharness/simnet"
	"github.com/bitcoin-sv/block-headers-service/verifharness/stack"
	"github.com/bitcoin-sv/block-headers-service/verifharness/stats"
	"pgregory.net/rapid"
)

// C05Plan: a history; every write boundary is a kill point and every write a failure point.
type C05Plan struct {
	Hist *hist.Plan `json:"hist"`
	// OnFail: what ingestion does after a header could not be stored:
	// "stop" = the rest of the batch is not processed (what both engines do), "continue" = go on with the next header.
	OnFail string `json:"onFail"`
	// Only restricts the variants executed (replay files of a single failing variant): "" = all.
	OnlyMode string `json:"onlyMode,omitempty"`
	OnlyK    int    `json:"onlyK,omitempty"`
}

// checkStructure: LONGEST rows form exactly one row per height 0..max, parent-linked from genesis.
func checkStructure(rows []stack.Row) error {
	byH := map[int64][]stack.Row{}
	maxH := int64(-1)
	for _, r := range rows {
		if r.State == model.Longest {
			byH[r.Height] = append(byH[r.Height], r)
			if r.Height > maxH {
				maxH = r.Height
			}
		}
	}
	if maxH < 0 {
		return fmt.Errorf("no longest-chain header at all")
	}
	for h := int64(0); h <= maxH; h++ {
		l := byH[h]
		if len(l) != 1 {
			return fmt.Errorf("%d longest-chain headers at height %d (tip height %d)", len(l), h, maxH)
		}
		if h > 0 && l[0].Prev != byH[h-1][0].Hash {
			return fmt.Errorf("longest-chain header at height %d does not link to the one at height %d", h, h-1)
		}
	}
	g := hist.Genesis()
	if byH[0][0].Hash != model.HashStr(g.Hash) {
		return fmt.Errorf("longest chain does not start at genesis")
	}
	return nil
}

func tableState(rows []stack.Row) string {
	var l []string
	for _, r := range rows {
		l = append(l, r.Key()+"|"+r.State)
	}
	sort.Strings(l)
	return strings.Join(l, "\n")
}

var (
	c05Dir      string
	c05Template []byte
)

func c05Fresh(name string, wrap func(repository.Headers) repository.Headers) (*stack.Stack, error) {
	if c05Dir == "" {
		c05Dir = scratchDir("c05")
		s, err := stack.New(stack.Options{Dir: c05Dir, DBFile: "template.db"})
		if err != nil {
			return nil, err
		}
		s.Close()
		c05Template, err = os.ReadFile(filepath.Join(c05Dir, "template.db"))
		if err != nil {
			return nil, err
		}
	}
	p := filepath.Join(c05Dir, name)
	stack.RemoveDB(p)
	if err := os.WriteFile(p, c05Template, 0o644); err != nil {
		return nil, err
	}
	return stack.New(stack.Options{Dir: c05Dir, DBFile: name, WrapHeaders: wrap})
}

type c05Ref struct {
	writes  int
	log     []interpose.WriteRec
	final   string
	tip     string
	tree    *model.Tree
	reorgAt map[int]bool // write indices (1-based) that lie inside a reorganisation (after its first update, before its insert)
}

func c05Reference(p *hist.Plan) (*c05Ref, error) {
	var ip *interpose.Headers
	s, err := c05Fresh("ref.db", func(h repository.Headers) repository.Headers { ip = interpose.Wrap(h); return ip })
	if err != nil {
		return nil, fmt.Errorf("infra: %w", err)
	}
	r := &hist.Rig{S: s, T: model.NewTree(hist.Genesis()), Acked: map[[32]byte]bool{}}
	defer s.Close()
	r.Headers = p.Build()
	r.Hashes = make([][32]byte, len(r.Headers))
	for i, h := range r.Headers {
		r.Hashes[i] = h.Hash()
	}
	for step, idx := range p.Delivery {
		if idx < 0 || idx >= len(r.Headers) {
			continue
		}
		if _, _, err := r.Deliver(idx); err != nil {
			return nil, fmt.Errorf("reference run, step %d: %w", step, err)
		}
	}
	if err := r.CompareTable(false); err != nil {
		return nil, fmt.Errorf("reference run: %w", err)
	}
	rows, _ := s.Headers()
	ref := &c05Ref{writes: ip.Writes, log: ip.Log, final: tableState(rows), tip: r.T.Best.HashStr, tree: r.T, reorgAt: map[int]bool{}}
	// a reorganisation = update(STALE) update(LONGEST) insert ; boundaries after the 1st and 2nd write are "inside"
	for i := 0; i+2 < len(ip.Log); i++ {
		if ip.Log[i].Op == "update" && ip.Log[i+1].Op == "update" && ip.Log[i+2].Op == "insert" {
			ref.reorgAt[i+1], ref.reorgAt[i+2] = true, true
		}
	}
	return ref, nil
}

// c05Variant runs one fault variant. mode: "kill" | "fail".
func c05Variant(p *C05Plan, ref *c05Ref, mode string, k int) error {
	what := fmt.Sprintf("%s at write %d of %d (%v)", mode, k, ref.writes, ref.log[k-1])
	var ip *interpose.Headers
	s, err := c05Fresh("var.db", func(h repository.Headers) repository.Headers {
		ip = interpose.Wrap(h)
		if mode == "kill" {
			ip.KillAfter = k
		} else {
			ip.FailAt = k
		}
		return ip
	})
	if err != nil {
		return fmt.Errorf("infra: %w", err)
	}
	defer func() { s.Close() }()
	hs := p.Hist.Build()
	acked := map[string]string{} // hash -> "height|cumwork|prev" at acknowledgement time
	killed := false
	failedSeen := false
	func() {
		defer func() {
			if r := recover(); r != nil {
				if _, ok := r.(interpose.Killed); ok {
					killed = true
					return
				}
				panic(r)
			}
		}()
		for _, idx := range p.Hist.Delivery {
			if idx < 0 || idx >= len(hs) {
				continue
			}
			bh, err := s.Services.Chains.Add(hist.ToSource(hs[idx]))
			if err == nil && bh != nil {
				acked[bh.Hash.String()] = fmt.Sprintf("%d|%s|%s", bh.Height, bh.CumulatedWork, bh.PreviousBlock.String())
			}
			if ip.Failed && !failedSeen {
				failedSeen = true
				if err == nil {
					// the failed write must not be reported as success
					panic(fmt.Sprintf("write %d failed but Add reported success", k))
				}
				if p.OnFail != "continue" {
					break
				}
			}
		}
	}()
	if mode == "kill" && !killed {
		return fmt.Errorf("infra: %s: kill point not reached", what)
	}
	// restart
	before, _ := s.Digest()
	// abandon every in-memory object: new stack on the same file, without interposer. After a kill the new process meets
	// the files as the dead one left them - nobody closed the database handle: the restart runs on a copy of the files
	// taken while the old handle is still open (main file plus whatever journal / write-ahead files lie beside it)
	dbFile := "var.db"
	if mode == "kill" {
		dbFile = "crash.db"
		stack.RemoveDB(filepath.Join(c05Dir, dbFile))
		for _, suffix := range []string{"", "-wal", "-shm", "-journal"} {
			if b, err := os.ReadFile(filepath.Join(c05Dir, "var.db"+suffix)); err == nil {
				if err := os.WriteFile(filepath.Join(c05Dir, dbFile+suffix), b, 0o600); err != nil {
					return fmt.Errorf("infra: %w", err)
				}
			}
		}
	}
	s.Close()
	s2, err := stack.New(stack.Options{Dir: c05Dir, DBFile: dbFile})
	if err != nil {
		return fmt.Errorf("%s: restart failed: %v", what, err)
	}
	s = s2
	after, _ := s.Digest()
	if before != "" && before != after {
		return fmt.Errorf("%s: restart (database.Init on the existing file) modified the store", what)
	}
	rows, err := s.Headers()
	if err != nil {
		return fmt.Errorf("infra: %w", err)
	}
	if err := checkStructure(rows); err != nil {
		return fmt.Errorf("%s: after restart the store is not structurally valid: %w", what, err)
	}
	present := map[string]stack.Row{}
	for _, r := range rows {
		present[r.Hash] = r
	}
	for h, want := range acked {
		row, ok := present[h]
		if !ok {
			return fmt.Errorf("%s: acknowledged header %s is gone after restart", what, h)
		}
		if got := fmt.Sprintf("%d|%s|%s", row.Height, row.CumWork, row.Prev); got != want {
			return fmt.Errorf("%s: acknowledged header %s altered: %s, was %s", what, h, got, want)
		}
	}
	tip := s.Services.Headers.GetTip()
	if tip == nil || present[tip.Hash.String()].State != model.Longest {
		return fmt.Errorf("%s: after restart GetTip is not a longest-chain header", what)
	}
	// redelivery of the whole plan in the original order
	for step, idx := range p.Hist.Delivery {
		if idx < 0 || idx >= len(hs) {
			continue
		}
		_, err := s.Services.Chains.Add(hist.ToSource(hs[idx]))
		if err != nil && err.Error() != "HeaderAlreadyExists" && err.Error() != "BlockRejected" {
			return fmt.Errorf("%s: redelivery step %d (spec %d) is rejected: %v", what, step, idx, err)
		}
	}
	rows, _ = s.Headers()
	if got := tableState(rows); got != ref.final {
		return fmt.Errorf("%s: after redelivery the store differs from the uninterrupted run:\n%s", what, diffStates(ref.final, got))
	}
	if tip := s.Services.Headers.GetTip(); tip == nil || tip.Hash.String() != ref.tip {
		return fmt.Errorf("%s: after redelivery the tip differs from the uninterrupted run", what)
	}
	return nil
}

func diffStates(want, got string) string {
	w := map[string]bool{}
	for _, l := range strings.Split(want, "\n") {
		w[l] = true
	}
	g := map[string]bool{}
	for _, l := range strings.Split(got, "\n") {
		g[l] = true
	}
	var out []string
	short := func(l string) string {
		f := strings.Split(l, "|")
		if len(f) < 11 {
			return l
		}
		return fmt.Sprintf("%s.. height %s state %s", f[0][:12], f[1], f[len(f)-1])
	}
	for l := range w {
		if !g[l] {
			out = append(out, "  expected "+short(l))
		}
	}
	for l := range g {
		if !w[l] {
			out = append(out, "  found    "+short(l))
		}
	}
	sort.Strings(out)
	if len(out) > 12 {
		out = out[:12]
	}
	return strings.Join(out, "\n")
}

func runC05(p *C05Plan) (*stats.Case, error) {
	ref, err := c05Reference(p.Hist)
	if err != nil {
		return nil, err
	}
	variants, inside := 0, 0
	for _, mode := range []string{"kill", "fail"} {
		if p.OnlyMode != "" && p.OnlyMode != mode {
			continue
		}
		for k := 1; k <= ref.writes; k++ {
			if p.OnlyK != 0 && p.OnlyK != k {
				continue
			}
			if err := c05Variant(p, ref, mode, k); err != nil {
				// narrow the replay to the failing variant
				p.OnlyMode, p.OnlyK = mode, k
				return nil, err
			}
			variants++
			if ref.reorgAt[k] {
				inside++
			}
		}
	}
	stats.Count("fault_variants", int64(variants))
	stats.Count("fault_variants_inside_reorg", int64(inside))
	cl := histClasses(p.Hist, ref.tree, 0, 0, 0)
	cl["writes"] = int64(ref.writes)
	cl["with_ge2_reorgs"] = b2i(ref.tree.Reorgs >= 2)
	nt := inside > 0 || ref.tree.Reorgs >= 2
	return &stats.Case{Sig: stats.Sig(planSig(p.Hist), p.OnFail), Nontrivial: nt, Classes: cl, Sample: p}, nil
}

// c05Known recognises open findings.
func c05Known(p *C05Plan, err error) string { return "" }

var propC05 = Prop[*C05Plan]{
	ID:   "C05",
	Name: "TestC05",
	Gen: func(t *rapid.T) *C05Plan {
		o := hist.GenOpts{MinSpecs: 5, MaxSpecs: quickThorough(14, 22), NoForbidden: true}
		h := hist.Gen(t, o)
		onFail := "stop"
		if v := os.Getenv("VERIF_DEV_ONFAIL"); v != "" {
			onFail = v
		}
		return &C05Plan{Hist: h, OnFail: onFail}
	},
	Run:   runC05,
	Known: c05Known,
}

func TestC05(t *testing.T) {
	if propC05.replayEnv(t) {
		return
	}
	propC05.Check(t)
}

func TestC05Regress(t *testing.T) { propC05.Regress(t) }

// ---- engine level: a storage failure while a headers message is being processed -----------------------------

// C05EnginePlan: one honest node, the k-th repository write fails while the real engine ingests.
type C05EnginePlan struct {
	Engine string `json:"engine"` // legacy | exp
	Len    int    `json:"len"`
	Cap    int    `json:"cap"`
	FailAt int    `json:"failAt"` // 1-based write index that fails
	Pver   uint32 `json:"pver"`
}

func runC05Engine(p *C05EnginePlan) (*stats.Case, error) {
	var firstErr error
	for attempt := 0; attempt < 3; attempt++ {
		c, err := runC05EngineOnce(p, attempt > 0)
		if err == nil {
			return c, nil
		}
		if strings.HasPrefix(err.Error(), "infra:") || !strings.Contains(err.Error(), "did not converge") {
			return nil, err
		}
		if firstErr == nil {
			firstErr = err
		}
	}
	return nil, fmt.Errorf("%w (failed 3 of 3 attempts)", firstErr)
}

func runC05EngineOnce(p *C05EnginePlan, long bool) (*stats.Case, error) {
	wait := 10 * time.Second
	if long {
		wait = 25 * time.Second
	}
	cp := p.Len / 3
	if cp < 1 {
		cp = 1
	}
	plan := &C06Plan{Engine: p.Engine, HonestLen: p.Len, Checkpoints: []int{cp}, Initial: "genesis"}
	nd := C06Node{Branch: -1}
	nd.Spec.Pver, nd.Spec.Cap = p.Pver, p.Cap
	plan.Nodes = []C06Node{nd}
	var ip *interpose.Headers
	sc, err := buildScenario(plan, stack.Options{WrapHeaders: func(h repository.Headers) repository.Headers {
		ip = interpose.Wrap(h)
		ip.FailAt = p.FailAt
		return ip
	}})
	if sc != nil {
		defer sc.close()
	}
	if err != nil {
		return nil, err
	}
	target := sc.honest
	tipIs := func() bool { return sc.tipHash() == target[len(target)-1].Hash.String() }
	// let the sync run into the failure (or finish, if the failing index is never reached)
	simnet.WaitQuiescent(sc.nodes, func() bool { return tipIs() || ip.Failed }, 150*time.Millisecond, wait)
	time.Sleep(150 * time.Millisecond)
	failed := ip.Failed
	// restart: the engine and the stack are shut down and started again on the same database file (no faults now)
	if err := sc.restartService(); err != nil {
		return nil, err
	}
	// redelivery: the restarted engine asks the peer from its tip and is served the same headers; the peer also
	// announces new blocks
	simnet.WaitQuiescent(sc.nodes, tipIs, 150*time.Millisecond, wait)
	for round := 0; round < 2 && !tipIs(); round++ {
		ext := sc.u.Extend(target, 1, 0, 0x1d00ffff)
		sc.nodes[0].MineWhenReady(ext[len(target):], true, 5*time.Second)
		target = ext
		simnet.WaitQuiescent(sc.nodes, tipIs, 150*time.Millisecond, wait/2)
	}
	rows, _ := sc.s.Headers()
	orphans := 0
	for _, r := range rows {
		if r.State == model.Orphan {
			orphans++
		}
	}
	if orphans > 0 {
		return nil, fmt.Errorf("after a failed store (write %d) and a restart the store holds %d successors of the failed header as ORPHAN: redelivery can never extend the chain past it (tip height %d of %d)", p.FailAt, orphans, sc.s.Services.Headers.GetTipHeight(), len(target))
	}
	if !tipIs() {
		return nil, fmt.Errorf("after a failed store (write %d, reached=%v), a restart and redelivery the service did not converge: tip height %d of %d", p.FailAt, failed, sc.s.Services.Headers.GetTipHeight(), len(target))
	}
	if err := checkStructure(rows); err != nil {
		return nil, err
	}
	cl := map[string]int64{"engine_fault_scenarios": 1, "engine_" + p.Engine: 1, "failure_reached": b2i(failed)}
	return &stats.Case{Sig: stats.Sig(fmt.Sprintf("%+v", *p)), Nontrivial: failed, Classes: cl, Sample: p}, nil
}

var propC05Engine = Prop[*C05EnginePlan]{
	ID:   "C05",
	Name: "TestC05Engine",
	Gen: func(t *rapid.T) *C05EnginePlan {
		p := &C05EnginePlan{Engine: rapid.SampledFrom([]string{"legacy", "exp"}).Draw(t, "engine"), Len: rapid.IntRange(8, 60).Draw(t, "len"),
			Cap: rapid.SampledFrom([]int{4, 7, 20, 2000}).Draw(t, "cap"), Pver: rapid.SampledFrom([]uint32{70015, 70011}).Draw(t, "pver")}
		p.FailAt = rapid.IntRange(1, p.Len).Draw(t, "failat")
		return p
	},
	Run: runC05Engine,
}

func TestC05Engine(t *testing.T) {
	if propC05Engine.replayEnv(t) {
		return
	}
	propC05Engine.Check(t)
}
