package checks

import (
	"sync/atomic"

	"github.com/bitcoin-sv/block-headers-service/domains"
	"github.com/bitcoin-sv/block-headers-service/internal/chaincfg/chainhash"
	"github.com/bitcoin-sv/block-headers-service/internal/wire"
	"github.com/bitcoin-sv/block-headers-service/service"
	peerpkg "github.com/bitcoin-sv/block-headers-service/transports/p2p/peer"
)

// callCounter counts calls into the services behind the HTTP handlers.
type callCounter struct{ n atomic.Int64 }

func (c *callCounter) hit()       { c.n.Add(1) }
func (c *callCounter) get() int64 { return c.n.Load() }

type headersProxy struct {
	in service.Headers
	c  *callCounter
}

func (p headersProxy) FindPreviousHeader(h string) *domains.BlockHeader {
	p.c.hit()
	return p.in.FindPreviousHeader(h)
}
func (p headersProxy) LatestHeaderLocator() domains.BlockLocator {
	p.c.hit()
	return p.in.LatestHeaderLocator()
}
func (p headersProxy) IsCurrent() bool { p.c.hit(); return p.in.IsCurrent() }
func (p headersProxy) GetHeightByHash(h *chainhash.Hash) (int32, error) {
	p.c.hit()
	return p.in.GetHeightByHash(h)
}
func (p headersProxy) LocateHeaders(l domains.BlockLocator, s *chainhash.Hash) []wire.BlockHeader {
	p.c.hit()
	return p.in.LocateHeaders(l, s)
}
func (p headersProxy) GetTip() *domains.BlockHeader { p.c.hit(); return p.in.GetTip() }
func (p headersProxy) GetTipHeight() int32          { p.c.hit(); return p.in.GetTipHeight() }
func (p headersProxy) CountHeaders() int            { p.c.hit(); return p.in.CountHeaders() }
func (p headersProxy) GetHeaderByHash(h string) (*domains.BlockHeader, error) {
	p.c.hit()
	return p.in.GetHeaderByHash(h)
}
func (p headersProxy) GetHeadersByHeight(h int, c int) ([]*domains.BlockHeader, error) {
	p.c.hit()
	return p.in.GetHeadersByHeight(h, c)
}
func (p headersProxy) GetHeaderAncestorsByHash(h string, a string) ([]*domains.BlockHeader, error) {
	p.c.hit()
	return p.in.GetHeaderAncestorsByHash(h, a)
}
func (p headersProxy) GetCommonAncestor(hs []string) (*domains.BlockHeader, error) {
	p.c.hit()
	return p.in.GetCommonAncestor(hs)
}
func (p headersProxy) GetHeadersState(h string) (*domains.BlockHeaderState, error) {
	p.c.hit()
	return p.in.GetHeadersState(h)
}
func (p headersProxy) GetTips() ([]*domains.BlockHeader, error) { p.c.hit(); return p.in.GetTips() }
func (p headersProxy) LocateHeadersGetHeaders(l []*chainhash.Hash, s *chainhash.Hash) ([]*wire.BlockHeader, error) {
	p.c.hit()
	return p.in.LocateHeadersGetHeaders(l, s)
}

type merkleProxy struct {
	in service.Merkleroots
	c  *callCounter
}

func (p merkleProxy) GetMerkleRoots(b int, k string) (*domains.MerkleRootsESKPagedResponse, error) {
	p.c.hit()
	return p.in.GetMerkleRoots(b, k)
}
func (p merkleProxy) GetMerkleRootsConfirmations(r []domains.MerkleRootConfirmationRequestItem) ([]*domains.MerkleRootConfirmation, error) {
	p.c.hit()
	return p.in.GetMerkleRootsConfirmations(r)
}

type networkProxy struct {
	in service.Network
	c  *callCounter
}

func (p networkProxy) GetPeers() []peerpkg.State { p.c.hit(); return p.in.GetPeers() }
func (p networkProxy) GetPeersCount() int        { p.c.hit(); return p.in.GetPeersCount() }

type chainsProxy struct {
	in service.Chains
	c  *callCounter
}

func (p chainsProxy) Add(s domains.BlockHeaderSource) (*domains.BlockHeader, error) {
	p.c.hit()
	return p.in.Add(s)
}

// tokensProxy counts only the mutating calls (GetToken is the mediation itself).
type tokensProxy struct {
	in service.Tokens
	c  *callCounter
}

func (p tokensProxy) GenerateToken() (*domains.Token, error) { p.c.hit(); return p.in.GenerateToken() }
func (p tokensProxy) GetToken(t string) (*domains.Token, error) {
	return p.in.GetToken(t)
}
func (p tokensProxy) DeleteToken(t string) error { p.c.hit(); return p.in.DeleteToken(t) }

// wrapAll installs the counting proxies (before SetupRoutes captures the services).
func wrapAll(c *callCounter) func(*service.Services) {
	return func(s *service.Services) {
		s.Headers = headersProxy{s.Headers, c}
		s.Merkleroots = merkleProxy{s.Merkleroots, c}
		s.Network = networkProxy{s.Network, c}
		s.Chains = chainsProxy{s.Chains, c}
		s.Tokens = tokensProxy{s.Tokens, c}
	}
}
