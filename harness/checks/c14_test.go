package checks

import (
	"bytes"
	"crypto/sha256"
	"encoding/binary"
	"encoding/hex"
	"fmt"
	"net"
	"os"
	"path/filepath"
	"runtime"
	"strings"
	"testing"
	"time"

	"github.com/bitcoin-sv/block-headers-service/config"
	"github.com/bitcoin-sv/block-headers-service/internal/chaincfg/chainhash"
	"github.com/bitcoin-sv/block-headers-service/internal/wire"
	"github.com/bitcoin-sv/block-headers-service/verifharness/stack"
	"github.com/bitcoin-sv/block-headers-service/verifharness/stats"
	"pgregory.net/rapid"
)

var c14Pvers = []uint32{209, 31402, 60000, 60001, 60002, 70001, 70002, 70011, 70012, 70013, 70015, 70016, 106, 31800}

const c14Net = wire.MainNet

// ---- structured messages -------------------------------------------------------

func drawHash(t *rapid.T, l string) chainhash.Hash {
	var h chainhash.Hash
	switch rapid.IntRange(0, 5).Draw(t, l+"k") {
	case 0:
	case 1:
		for i := range h {
			h[i] = 0xff
		}
	default:
		copy(h[:], rapid.SliceOfN(rapid.Byte(), 32, 32).Draw(t, l))
	}
	return h
}

func drawCount(t *rapid.T, l string, limit int, big bool) int {
	k := rapid.IntRange(0, 19).Draw(t, l+"k")
	switch {
	case k == 0:
		return 0
	case k == 1 && big:
		return limit
	case k == 2 && big:
		return limit - 1
	case k < 6:
		return rapid.IntRange(0xfc, 0x102).Draw(t, l+"v") % (limit + 1)
	default:
		return rapid.IntRange(0, 12).Draw(t, l) % (limit + 1)
	}
}

func drawNetAddr(t *rapid.T, l string, withTS bool) wire.NetAddress {
	na := wire.NetAddress{Services: wire.ServiceFlag(rapid.Uint64().Draw(t, l+"sv")), Port: rapid.Uint16().Draw(t, l+"port")}
	switch rapid.IntRange(0, 3).Draw(t, l+"ipk") {
	case 0:
		na.IP = net.IPv4(rapid.Byte().Draw(t, l+"a"), rapid.Byte().Draw(t, l+"b"), rapid.Byte().Draw(t, l+"c"), rapid.Byte().Draw(t, l+"d"))
	case 1:
		na.IP = net.IP(rapid.SliceOfN(rapid.Byte(), 16, 16).Draw(t, l+"ip6"))
	case 2:
		na.IP = nil
	default:
		na.IP = net.IPv4(127, 0, 0, 1).To4()
	}
	if withTS {
		na.Timestamp = time.Unix(int64(rapid.Uint32().Draw(t, l+"ts")), 0)
	}
	return na
}

// C14Msg is a structured case: the frame bytes produced by WriteMessage are what gets replayed.
type C14Msg struct {
	Kind  string `json:"kind"`
	Pver  uint32 `json:"pver"`
	Frame string `json:"frame,omitempty"` // hex of the encoded frame (informational + replay)
	Desc  string `json:"desc,omitempty"`
	msg   wire.Message
}

var c14Kinds = []string{"version", "verack", "getaddr", "addr", "getheaders", "getblocks", "headers", "inv", "getdata", "notfound", "ping", "pong", "reject", "sendheaders", "feefilter", "mempool"}

func genC14Msg(t *rapid.T) *C14Msg {
	c := &C14Msg{Kind: rapid.SampledFrom(c14Kinds).Draw(t, "kind"), Pver: rapid.SampledFrom(c14Pvers).Draw(t, "pver")}
	big := rapid.IntRange(0, 40).Draw(t, "big") == 0
	switch c.Kind {
	case "version":
		m := &wire.MsgVersion{ProtocolVersion: rapid.Int32().Draw(t, "pv"), Services: wire.ServiceFlag(rapid.Uint64().Draw(t, "sv")),
			Timestamp: time.Unix(rapid.Int64().Draw(t, "ts"), 0), AddrYou: drawNetAddr(t, "you", false), AddrMe: drawNetAddr(t, "me", false),
			Nonce: rapid.Uint64().Draw(t, "nonce"), LastBlock: rapid.Int32().Draw(t, "lb"), DisableRelayTx: rapid.Bool().Draw(t, "relay")}
		n := drawCount(t, "ua", wire.MaxUserAgentLen, true)
		m.UserAgent = strings.Repeat("u", n)
		if n > 0 && n < 40 {
			m.UserAgent = rapid.StringN(n, n, n).Draw(t, "uas")
			if len(m.UserAgent) > wire.MaxUserAgentLen {
				m.UserAgent = m.UserAgent[:wire.MaxUserAgentLen]
			}
		}
		c.msg = m
	case "verack":
		c.msg = wire.NewMsgVerAck()
	case "getaddr":
		c.msg = wire.NewMsgGetAddr()
	case "sendheaders":
		c.msg = wire.NewMsgSendHeaders()
	case "mempool":
		c.msg = wire.NewMsgMemPool()
	case "addr":
		m := &wire.MsgAddr{}
		n := drawCount(t, "n", wire.MaxAddrPerMsg, big)
		if c.Pver < wire.MultipleAddressVersion && n > 1 {
			n = 1
		}
		for i := 0; i < n; i++ {
			na := drawNetAddr(t, "a", true)
			m.AddrList = append(m.AddrList, &na)
		}
		c.msg = m
	case "getheaders", "getblocks":
		n := drawCount(t, "n", wire.MaxBlockLocatorsPerMsg, big)
		var loc []*chainhash.Hash
		for i := 0; i < n; i++ {
			h := drawHash(t, "l")
			loc = append(loc, &h)
		}
		if c.Kind == "getheaders" {
			c.msg = &wire.MsgGetHeaders{ProtocolVersion: rapid.Uint32().Draw(t, "gpv"), BlockLocatorHashes: loc, HashStop: drawHash(t, "stop")}
		} else {
			c.msg = &wire.MsgGetBlocks{ProtocolVersion: rapid.Uint32().Draw(t, "gpv"), BlockLocatorHashes: loc, HashStop: drawHash(t, "stop")}
		}
	case "headers":
		m := &wire.MsgHeaders{}
		n := drawCount(t, "n", wire.MaxBlockHeadersPerMsg, big)
		for i := 0; i < n; i++ {
			bh := &wire.BlockHeader{Version: rapid.Int32().Draw(t, "v"), PrevBlock: drawHash(t, "p"), MerkleRoot: drawHash(t, "m"),
				Timestamp: time.Unix(int64(rapid.Uint32().Draw(t, "t")), 0), Bits: rapid.Uint32().Draw(t, "b"), Nonce: rapid.Uint32().Draw(t, "no")}
			m.Headers = append(m.Headers, bh)
		}
		c.msg = m
	case "inv", "getdata", "notfound":
		n := drawCount(t, "n", wire.MaxInvPerMsg, big && rapid.IntRange(0, 3).Draw(t, "huge") == 0)
		var l []*wire.InvVect
		for i := 0; i < n; i++ {
			if i < 64 {
				l = append(l, &wire.InvVect{Type: wire.InvType(rapid.Uint32().Draw(t, "it")), Hash: drawHash(t, "ih")})
			} else {
				var h chainhash.Hash
				binary.LittleEndian.PutUint32(h[:], uint32(i))
				l = append(l, &wire.InvVect{Type: wire.InvTypeBlock, Hash: h})
			}
		}
		switch c.Kind {
		case "inv":
			c.msg = &wire.MsgInv{InvList: l}
		case "getdata":
			c.msg = &wire.MsgGetData{InvList: l}
		default:
			c.msg = &wire.MsgNotFound{InvList: l}
		}
	case "ping":
		c.msg = wire.NewMsgPing(rapid.Uint64().Draw(t, "nonce"))
	case "pong":
		c.msg = wire.NewMsgPong(rapid.Uint64().Draw(t, "nonce"))
	case "feefilter":
		c.msg = wire.NewMsgFeeFilter(rapid.Int64().Draw(t, "fee"))
	case "reject":
		m := &wire.MsgReject{Cmd: rapid.SampledFrom([]string{"block", "tx", "version", "", "headers", strings.Repeat("c", 300)}).Draw(t, "rc"),
			Code: wire.RejectCode(rapid.Byte().Draw(t, "code")), Reason: rapid.StringN(0, 40, 200).Draw(t, "reason"), Hash: drawHash(t, "rh")}
		if rapid.IntRange(0, 3).Draw(t, "longreason") == 0 {
			// the reason has no limit of its own: strings beyond any internal chunk size
			m.Reason = strings.Repeat("r", rapid.SampledFrom([]int{255, 256, 257, 511, 512, 513, 600, 1023, 1024, 1025, 4000, 65535, 65536, 70000}).Draw(t, "reasonlen"))
		}
		c.msg = m
	}
	return c
}

// validAt: is the kind encodable at pver (documented per kind)?
func validAt(kind string, pver uint32) bool {
	switch kind {
	case "pong":
		return pver > wire.BIP0031Version
	case "reject":
		return pver >= wire.RejectVersion
	case "sendheaders":
		return pver >= wire.SendHeadersVersion
	case "feefilter":
		return pver >= wire.FeeFilterVersion
	case "mempool":
		return pver >= wire.BIP0035Version
	}
	return true
}

// render prints a message in a canonical comparable form (times as unix seconds, IPs as 16 bytes).
func render(m wire.Message) string {
	ip := func(i net.IP) string {
		var b [16]byte
		if i != nil {
			copy(b[:], i.To16())
		}
		return hex.EncodeToString(b[:])
	}
	na := func(a *wire.NetAddress, ts bool) string {
		s := fmt.Sprintf("{%d %s %d", a.Services, ip(a.IP), a.Port)
		if ts {
			sec := uint32(0)
			if !a.Timestamp.IsZero() {
				sec = uint32(a.Timestamp.Unix())
			}
			s += fmt.Sprintf(" ts=%d", sec)
		}
		return s + "}"
	}
	loc := func(l []*chainhash.Hash) string {
		var sb strings.Builder
		for _, h := range l {
			sb.WriteString(h.String()[:16])
			sb.WriteByte(',')
		}
		return sb.String()
	}
	inv := func(l []*wire.InvVect) string {
		var sb strings.Builder
		for _, v := range l {
			fmt.Fprintf(&sb, "%d:%s,", v.Type, v.Hash.String()[:16])
		}
		return sb.String()
	}
	switch v := m.(type) {
	case *wire.MsgVersion:
		return fmt.Sprintf("version %d %d %d %s %s %d %q %d relayoff=%v", v.ProtocolVersion, v.Services, v.Timestamp.Unix(), na(&v.AddrYou, false), na(&v.AddrMe, false), v.Nonce, v.UserAgent, v.LastBlock, v.DisableRelayTx)
	case *wire.MsgAddr:
		var sb strings.Builder
		for _, a := range v.AddrList {
			sb.WriteString(na(a, true))
		}
		return fmt.Sprintf("addr %d %s", len(v.AddrList), sb.String())
	case *wire.MsgGetHeaders:
		return fmt.Sprintf("getheaders %d %d %s stop=%s", v.ProtocolVersion, len(v.BlockLocatorHashes), loc(v.BlockLocatorHashes), v.HashStop)
	case *wire.MsgGetBlocks:
		return fmt.Sprintf("getblocks %d %d %s stop=%s", v.ProtocolVersion, len(v.BlockLocatorHashes), loc(v.BlockLocatorHashes), v.HashStop)
	case *wire.MsgHeaders:
		var sb strings.Builder
		for _, h := range v.Headers {
			fmt.Fprintf(&sb, "{%d %s %s %d %d %d}", h.Version, h.PrevBlock, h.MerkleRoot, h.Timestamp.Unix(), h.Bits, h.Nonce)
		}
		return fmt.Sprintf("headers %d %s", len(v.Headers), sb.String())
	case *wire.MsgInv:
		return fmt.Sprintf("inv %d %s", len(v.InvList), inv(v.InvList))
	case *wire.MsgGetData:
		return fmt.Sprintf("getdata %d %s", len(v.InvList), inv(v.InvList))
	case *wire.MsgNotFound:
		return fmt.Sprintf("notfound %d %s", len(v.InvList), inv(v.InvList))
	case *wire.MsgPing:
		return fmt.Sprintf("ping %d", v.Nonce)
	case *wire.MsgPong:
		return fmt.Sprintf("pong %d", v.Nonce)
	case *wire.MsgFeeFilter:
		return fmt.Sprintf("feefilter %d", v.MinFee)
	case *wire.MsgReject:
		h := ""
		if v.Cmd == wire.CmdBlock || v.Cmd == wire.CmdTx {
			h = v.Hash.String()
		}
		return fmt.Sprintf("reject %q %d %q %s", v.Cmd, v.Code, v.Reason, h)
	}
	return fmt.Sprintf("%s", m.Command())
}

// project applies what the format does NOT carry at pver to the original message (documented per kind).
func project(m wire.Message, pver uint32) wire.Message {
	switch v := m.(type) {
	case *wire.MsgVersion:
		c := *v
		if pver < wire.BIP0037Version {
			c.DisableRelayTx = false // the relay flag is not on the wire before BIP0037
		}
		return &c
	case *wire.MsgAddr:
		c := &wire.MsgAddr{}
		for _, a := range v.AddrList {
			b := *a
			if pver < wire.NetAddressTimeVersion {
				b.Timestamp = time.Time{} // no timestamp field before 31402
			}
			c.AddrList = append(c.AddrList, &b)
		}
		return c
	case *wire.MsgPing:
		if pver <= wire.BIP0031Version {
			return &wire.MsgPing{} // no nonce before BIP0031
		}
	}
	return m
}

func runC14Msg(c *C14Msg) (*stats.Case, error) {
	stack.ProcessInit()
	msg := c.msg
	if msg == nil {
		// replay: decode the stored frame, then re-run the law on it
		raw, err := hex.DecodeString(c.Frame)
		if err != nil {
			return nil, fmt.Errorf("infra: bad replay frame")
		}
		m, _, err := wire.ReadMessage(bytes.NewReader(raw), c.Pver, c14Net)
		if err != nil {
			return nil, fmt.Errorf("stored frame of kind %s no longer decodes at pver %d: %v", c.Kind, c.Pver, err)
		}
		msg = m
	}
	var buf bytes.Buffer
	err := wire.WriteMessage(&buf, msg, c.Pver, c14Net)
	if err != nil {
		if validAt(c.Kind, c.Pver) {
			return nil, fmt.Errorf("WriteMessage(%s, pver %d) failed although the message is within protocol limits: %v (%s)", c.Kind, c.Pver, err, trunc(render(msg)))
		}
		return &stats.Case{Sig: stats.Sig(c.Kind, c.Pver, "invalid"), Classes: map[string]int64{"encode_refused_invalid_at_pver": 1}}, nil
	}
	frame := append([]byte{}, buf.Bytes()...)
	c.Frame = hex.EncodeToString(frame)
	if len(c.Frame) > 4000 {
		c.Frame = ""
		c.Desc = trunc(render(msg))
	}
	if !validAt(c.Kind, c.Pver) {
		return nil, fmt.Errorf("WriteMessage(%s) succeeded at pver %d where the kind does not exist", c.Kind, c.Pver)
	}
	got, payload, err := wire.ReadMessage(bytes.NewReader(frame), c.Pver, c14Net)
	if err != nil {
		return nil, fmt.Errorf("decode(encode(%s)) at pver %d failed: %v (%s)", c.Kind, c.Pver, err, trunc(render(msg)))
	}
	if !bytes.Equal(payload, frame[wire.MessageHeaderSize:]) {
		return nil, fmt.Errorf("ReadMessage returned a payload that differs from the frame's payload")
	}
	want := render(project(msg, c.Pver))
	if g := render(got); g != want {
		return nil, fmt.Errorf("decode(encode(m)) != m for %s at pver %d:\n got  %s\n want %s", c.Kind, c.Pver, trunc(g), trunc(want))
	}
	var buf2 bytes.Buffer
	if err := wire.WriteMessage(&buf2, got, c.Pver, c14Net); err != nil {
		return nil, fmt.Errorf("re-encoding the decoded %s failed: %v", c.Kind, err)
	}
	if !bytes.Equal(buf2.Bytes(), frame) {
		return nil, fmt.Errorf("re-encoding the decoded %s at pver %d does not reproduce the bytes (%d vs %d bytes)", c.Kind, c.Pver, buf2.Len(), len(frame))
	}
	n := elemCount(msg)
	nt := n >= 2 || n == limitOf(c.Kind) || len(frame) > 1000
	return &stats.Case{Sig: stats.Sig(c.Kind, c.Pver, sha256.Sum256(frame)), Nontrivial: nt, Classes: map[string]int64{"roundtrips": 1, "kind_" + c.Kind: 1}, Sample: c}, nil
}

func trunc(s string) string {
	if len(s) > 400 {
		return s[:400] + "..."
	}
	return s
}

func elemCount(m wire.Message) int {
	switch v := m.(type) {
	case *wire.MsgAddr:
		return len(v.AddrList)
	case *wire.MsgGetHeaders:
		return len(v.BlockLocatorHashes)
	case *wire.MsgGetBlocks:
		return len(v.BlockLocatorHashes)
	case *wire.MsgHeaders:
		return len(v.Headers)
	case *wire.MsgInv:
		return len(v.InvList)
	case *wire.MsgGetData:
		return len(v.InvList)
	case *wire.MsgNotFound:
		return len(v.InvList)
	case *wire.MsgVersion:
		return len(v.UserAgent)
	}
	return 0
}

func limitOf(kind string) int {
	switch kind {
	case "addr":
		return wire.MaxAddrPerMsg
	case "getheaders", "getblocks":
		return wire.MaxBlockLocatorsPerMsg
	case "headers":
		return wire.MaxBlockHeadersPerMsg
	case "inv", "getdata", "notfound":
		return wire.MaxInvPerMsg
	case "version":
		return wire.MaxUserAgentLen
	}
	return -1
}

var propC14 = Prop[*C14Msg]{ID: "C14", Name: "TestC14RoundTrip", Gen: genC14Msg, Run: runC14Msg}

func TestC14RoundTrip(t *testing.T) {
	if propC14.replayEnv(t) {
		return
	}
	propC14.Check(t)
}

func TestC14Regress(t *testing.T) {
	propC14.Regress(t)
	propC14H.Regress(t)
}

// ---- hostile bytes -------------------------------------------------------------

// C14Hostile: bytes fed to the decoder.
type C14Hostile struct {
	Pver  uint32 `json:"pver"`
	EBS   uint32 `json:"ebs"` // wire.SetLimits value
	Hex   string `json:"hex"`
	Class string `json:"class"`
	Reach bool   `json:"reach"` // header (magic, command, length, checksum) valid: payload decoder is reached
}

func frameOf(cmd string, payload []byte, magic uint32) []byte {
	b := make([]byte, 24, 24+len(payload))
	binary.LittleEndian.PutUint32(b[0:], magic)
	copy(b[4:16], cmd)
	binary.LittleEndian.PutUint32(b[16:], uint32(len(payload)))
	a := sha256.Sum256(payload)
	a = sha256.Sum256(a[:])
	copy(b[20:24], a[:4])
	return append(b, payload...)
}

var c14Seeds map[string][][]byte

// seedPayloads returns valid payloads for every command of the table.
func seedPayloads() map[string][][]byte {
	if c14Seeds != nil {
		return c14Seeds
	}
	stack.ProcessInit()
	out := map[string][][]byte{}
	enc := func(m wire.Message, pver uint32) {
		var b bytes.Buffer
		if err := m.BsvEncode(&b, pver, wire.BaseEncoding); err == nil {
			out[m.Command()] = append(out[m.Command()], b.Bytes())
		}
	}
	h1 := chainhash.Hash{1, 2, 3}
	h2 := chainhash.Hash{9, 9}
	bh := &wire.BlockHeader{Version: 2, PrevBlock: h1, MerkleRoot: h2, Timestamp: time.Unix(1600000000, 0), Bits: 0x1d00ffff, Nonce: 7}
	me := wire.NewNetAddressIPPort(net.IPv4(1, 2, 3, 4), 8333, wire.SFNodeNetwork)
	pv := wire.ProtocolVersion
	enc(wire.NewMsgVersion(me, me, 42, 100), pv)
	enc(wire.NewMsgVerAck(), pv)
	enc(wire.NewMsgGetAddr(), pv)
	ma := wire.NewMsgAddr()
	_ = ma.AddAddresses(me, me, me)
	enc(ma, pv)
	gh := wire.NewMsgGetHeaders()
	_ = gh.AddBlockLocatorHash(&h1)
	_ = gh.AddBlockLocatorHash(&h2)
	enc(gh, pv)
	gb := wire.NewMsgGetBlocks(&h2)
	_ = gb.AddBlockLocatorHash(&h1)
	enc(gb, pv)
	mh := wire.NewMsgHeaders()
	_ = mh.AddBlockHeader(bh)
	_ = mh.AddBlockHeader(bh)
	enc(mh, pv)
	iv := wire.NewMsgInv()
	_ = iv.AddInvVect(wire.NewInvVect(wire.InvTypeBlock, &h1))
	_ = iv.AddInvVect(wire.NewInvVect(wire.InvTypeTx, &h2))
	enc(iv, pv)
	gd := wire.NewMsgGetData()
	_ = gd.AddInvVect(wire.NewInvVect(wire.InvTypeBlock, &h1))
	enc(gd, pv)
	nf := wire.NewMsgNotFound()
	_ = nf.AddInvVect(wire.NewInvVect(wire.InvTypeBlock, &h1))
	enc(nf, pv)
	enc(wire.NewMsgPing(5), pv)
	enc(wire.NewMsgPong(5), pv)
	rj := wire.NewMsgReject("block", wire.RejectDuplicate, "dup")
	rj.Hash = h1
	enc(rj, pv)
	enc(wire.NewMsgReject("version", wire.RejectObsolete, "old"), pv)
	enc(wire.NewMsgSendHeaders(), pv)
	enc(wire.NewMsgFeeFilter(1000), pv)
	enc(wire.NewMsgMemPool(), pv)
	tx := wire.NewMsgTx(1)
	tx.AddTxIn(wire.NewTxIn(wire.NewOutPoint(&h1, 0), []byte{1, 2, 3}))
	tx.AddTxOut(wire.NewTxOut(5000, []byte{0x76, 0xa9}))
	enc(tx, pv)
	blk := wire.NewMsgBlock(bh)
	_ = blk.AddTransaction(tx)
	enc(blk, pv)
	enc(wire.NewMsgFilterAdd([]byte{1, 2, 3, 4}), pv)
	enc(wire.NewMsgFilterClear(), pv)
	enc(wire.NewMsgFilterLoad([]byte{1, 2, 3, 4, 5}, 10, 0, wire.BloomUpdateNone), pv)
	mb := wire.NewMsgMerkleBlock(bh)
	_ = mb.AddTxHash(&h1)
	mb.Flags = []byte{1}
	mb.Transactions = 1
	enc(mb, pv)
	enc(wire.NewMsgGetCFilters(wire.GCSFilterRegular, 1, &h1), pv)
	enc(wire.NewMsgGetCFHeaders(wire.GCSFilterRegular, 1, &h1), pv)
	enc(wire.NewMsgGetCFCheckpt(wire.GCSFilterRegular, &h1), pv)
	enc(wire.NewMsgCFilter(wire.GCSFilterRegular, &h1, []byte{1, 2, 3}), pv)
	cfh := wire.NewMsgCFHeaders()
	_ = cfh.AddCFHash(&h1)
	enc(cfh, pv)
	cfc := wire.NewMsgCFCheckpt(wire.GCSFilterRegular, &h1, 1)
	_ = cfc.AddCFHeader(&h2)
	enc(cfc, pv)
	enc(wire.NewMsgProtoconf(2*1024*1024), 70016)
	out["authch"] = [][]byte{{1, 2, 3, 4, 5, 6, 7, 8}, {}}
	c14Seeds = out
	return out
}

func varint(v uint64) []byte {
	switch {
	case v < 0xfd:
		return []byte{byte(v)}
	case v <= 0xffff:
		b := []byte{0xfd, 0, 0}
		binary.LittleEndian.PutUint16(b[1:], uint16(v))
		return b
	case v <= 0xffffffff:
		b := []byte{0xfe, 0, 0, 0, 0}
		binary.LittleEndian.PutUint32(b[1:], uint32(v))
		return b
	}
	b := make([]byte, 9)
	b[0] = 0xff
	binary.LittleEndian.PutUint64(b[1:], v)
	return b
}

func genC14Hostile(t *rapid.T) *C14Hostile {
	seeds := seedPayloads()
	cmds := make([]string, 0, len(seeds))
	for c := range seeds {
		cmds = append(cmds, c)
	}
	sortStrings(cmds)
	h := &C14Hostile{Pver: rapid.SampledFrom([]uint32{70016, 70013, 70015, 70012, 70001, 60002, 209}).Draw(t, "pver")}
	h.EBS = rapid.SampledFrom([]uint32{config.ExcessiveBlockSize, config.ExcessiveBlockSize, 1000000}).Draw(t, "ebs")
	cmd := rapid.SampledFrom(cmds).Draw(t, "cmd")
	pl := append([]byte{}, seeds[cmd][rapid.IntRange(0, len(seeds[cmd])-1).Draw(t, "seed")]...)
	magic := uint32(c14Net)
	var raw []byte
	h.Reach = true
	class := rapid.SampledFrom([]string{"varint", "varint", "varint", "bitflip", "bitflip", "truncate", "length", "checksum", "splice", "magic", "command", "random", "valid", "insert", "tail"}).Draw(t, "class")
	h.Class = class
	switch class {
	case "valid":
		raw = frameOf(cmd, pl, magic)
	case "varint":
		// replace a byte position with an inflated / non-canonical varint, keep header consistent
		vals := []uint64{0xfc, 0xfd, 0xffff, 0x10000, 1 << 20, 1<<20 + 1, 1 << 24, 1 << 28, 1<<31 - 1, 1 << 31, 1<<32 - 1, 1 << 32, 1 << 33, 1 << 40, 1<<63 - 1, 1 << 63, 1<<64 - 1, 2001, 50001, 1001, 501, 2000, 50000}
		v := varint(vals[rapid.IntRange(0, len(vals)-1).Draw(t, "vv")])
		if rapid.IntRange(0, 7).Draw(t, "noncanon") == 0 {
			v = [][]byte{{0xfd, 0x01, 0x00}, {0xfe, 0x01, 0, 0, 0}, {0xff, 1, 0, 0, 0, 0, 0, 0, 0}, {0xfd, 0xfc, 0x00}}[rapid.IntRange(0, 3).Draw(t, "nc")]
		}
		pos := 0
		if len(pl) > 0 {
			// count fields sit at offset 0 (most kinds), 4 (getheaders/getblocks), 80 (block), or anywhere
			pos = rapid.SampledFrom([]int{0, 0, 0, 4, 4, 80, 81, 1, 36, rapid.IntRange(0, len(pl)).Draw(t, "vp")}).Draw(t, "vpos")
			if pos > len(pl) {
				pos = len(pl)
			}
		}
		end := pos + 1
		if end > len(pl) {
			end = len(pl)
		}
		np := append(append(append([]byte{}, pl[:pos]...), v...), pl[end:]...)
		raw = frameOf(cmd, np, magic)
	case "bitflip":
		np := append([]byte{}, pl...)
		for i := 0; i < rapid.IntRange(1, 4).Draw(t, "nf") && len(np) > 0; i++ {
			np[rapid.IntRange(0, len(np)-1).Draw(t, "fp")] ^= 1 << rapid.IntRange(0, 7).Draw(t, "fb")
		}
		raw = frameOf(cmd, np, magic)
	case "insert":
		np := append([]byte{}, pl...)
		pos := rapid.IntRange(0, len(np)).Draw(t, "ip")
		ins := rapid.SliceOfN(rapid.Byte(), 1, 9).Draw(t, "ins")
		np = append(np[:pos], append(ins, np[pos:]...)...)
		raw = frameOf(cmd, np, magic)
	case "tail":
		np := append(append([]byte{}, pl...), rapid.SliceOfN(rapid.Byte(), 1, 40).Draw(t, "tail")...)
		raw = frameOf(cmd, np, magic)
	case "truncate":
		full := frameOf(cmd, pl, magic)
		cut := rapid.IntRange(0, len(full)).Draw(t, "cut")
		if rapid.Bool().Draw(t, "payloadcut") && len(pl) > 0 {
			// truncated payload with consistent header: decoder reached
			raw = frameOf(cmd, pl[:rapid.IntRange(0, len(pl)-1).Draw(t, "pcut")], magic)
		} else {
			raw = full[:cut]
			h.Reach = false
		}
	case "length":
		raw = frameOf(cmd, pl, magic)
		lens := []uint32{0, 1, uint32(len(pl)) + 1, uint32(len(pl)) - 1, 1 << 20, 1 << 24, 1<<28 + 1, 0x7fffffff, 0x80000000, 0xffffffff, 2 * 1024 * 1024, 2*1024*1024 + 1, 268435456, 268435457}
		binary.LittleEndian.PutUint32(raw[16:], lens[rapid.IntRange(0, len(lens)-1).Draw(t, "lv")])
		h.Reach = false
	case "checksum":
		raw = frameOf(cmd, pl, magic)
		raw[20+rapid.IntRange(0, 3).Draw(t, "cb")] ^= byte(rapid.IntRange(1, 255).Draw(t, "cx"))
		h.Reach = false
	case "splice":
		a := frameOf(cmd, pl, magic)
		cmd2 := rapid.SampledFrom(cmds).Draw(t, "cmd2")
		b := frameOf(cmd2, seeds[cmd2][0], magic)
		cut := rapid.IntRange(0, len(a)).Draw(t, "sc")
		raw = append(append([]byte{}, a[:cut]...), b...)
		h.Reach = false
	case "magic":
		raw = frameOf(cmd, pl, rapid.SampledFrom([]uint32{uint32(wire.TestNet), uint32(wire.TestNet3), 0, 0xffffffff, uint32(c14Net) ^ 1}).Draw(t, "mg"))
		h.Reach = false
	case "command":
		bad := rapid.SampledFrom([]string{"bogus", "", "VERSION", "version\x00x", "\xff\xfe\xfd", "versionversio", "getheader", "héaders"}).Draw(t, "bc")
		raw = frameOf(cmd, pl, magic)
		var cb [12]byte
		copy(cb[:], bad)
		copy(raw[4:16], cb[:])
		h.Reach = false
	default:
		raw = rapid.SliceOfN(rapid.Byte(), 0, 120).Draw(t, "rnd")
		h.Reach = false
	}
	h.Hex = hex.EncodeToString(raw)
	return h
}

func sortStrings(a []string) {
	for i := 1; i < len(a); i++ {
		for j := i; j > 0 && a[j-1] > a[j]; j-- {
			a[j-1], a[j] = a[j], a[j-1]
		}
	}
}

var c14Inflight string

func runC14Hostile(h *C14Hostile) (*stats.Case, error) {
	stack.ProcessInit()
	raw, err := hex.DecodeString(h.Hex)
	if err != nil {
		return nil, fmt.Errorf("infra: bad hex")
	}
	ebs := h.EBS
	if ebs == 0 {
		ebs = config.ExcessiveBlockSize
	}
	wire.SetLimits(ebs)
	defer wire.SetLimits(config.ExcessiveBlockSize)
	limit := uint64((ebs/1000000)*1024*1024) * 2
	// in-flight input for triage of worker death
	if c14Inflight == "" {
		c14Inflight = filepath.Join(scratchDir("c14"), "inflight.json")
	}
	_ = os.WriteFile(c14Inflight, []byte(fmt.Sprintf(`{"property":"C14","test":"TestC14Hostile","message":"worker died while decoding this input","plan":{"pver":%d,"ebs":%d,"hex":%q,"class":%q}}`, h.Pver, ebs, h.Hex, h.Class)), 0o644)

	type result struct {
		msg   wire.Message
		err   error
		alloc uint64
		pan   any
	}
	done := make(chan result, 1)
	go func() {
		var r result
		defer func() {
			if p := recover(); p != nil {
				r.pan = p
			}
			done <- r
		}()
		var m0, m1 runtime.MemStats
		runtime.ReadMemStats(&m0)
		r.msg, _, r.err = wire.ReadMessage(bytes.NewReader(raw), h.Pver, c14Net)
		runtime.ReadMemStats(&m1)
		r.alloc = m1.TotalAlloc - m0.TotalAlloc
	}()
	var r result
	select {
	case r = <-done:
	case <-time.After(20 * time.Second):
		return nil, fmt.Errorf("decoder did not return within 20 s on a %d-byte input (class %s)", len(raw), h.Class)
	}
	_ = os.Remove(c14Inflight)
	if r.pan != nil {
		return nil, fmt.Errorf("decoder panicked on class %s input: %v", h.Class, r.pan)
	}
	budget := limit + 4*uint64(len(raw)) + 64*1024
	if ebs < config.ExcessiveBlockSize {
		budget = 4*limit + 4*uint64(len(raw)) + 64*1024
	}
	if r.alloc > budget {
		return nil, fmt.Errorf("decoder allocated %d bytes for a %d-byte input (class %s); declared payload limit %d", r.alloc, len(raw), h.Class, limit)
	}
	// header-level rejections
	if len(raw) >= 24 {
		magic := binary.LittleEndian.Uint32(raw[0:])
		length := binary.LittleEndian.Uint32(raw[16:])
		cmd := string(bytes.TrimRight(raw[4:16], "\x00"))
		_, known := seedPayloads()[cmd]
		cs := uint32(0)
		okSum := false
		if uint64(len(raw)) >= 24+uint64(length) {
			a := sha256.Sum256(raw[24 : 24+length])
			a = sha256.Sum256(a[:])
			okSum = bytes.Equal(a[:4], raw[20:24])
			cs = 1
		}
		switch {
		case magic != uint32(c14Net) && r.err == nil:
			return nil, fmt.Errorf("frame with wrong network magic %08x was accepted", magic)
		case uint64(length) > limit && r.err == nil:
			return nil, fmt.Errorf("frame with oversize length %d (limit %d) was accepted", length, limit)
		case !known && r.err == nil:
			return nil, fmt.Errorf("frame with unknown command %q was accepted", cmd)
		case cs == 1 && !okSum && r.err == nil:
			return nil, fmt.Errorf("frame with a bad checksum was accepted (command %s)", cmd)
		}
	} else if r.err == nil {
		return nil, fmt.Errorf("a %d-byte input (shorter than a header) was accepted", len(raw))
	}
	survivor := false
	if r.err == nil && r.msg != nil {
		// round trip on survivors (kinds of the listed set only: others are not required to round-trip)
		survivor = true
		if limitOf(r.msg.Command()) != -1 || r.msg.Command() == "ping" || r.msg.Command() == "pong" || r.msg.Command() == "feefilter" || r.msg.Command() == "reject" {
			var b bytes.Buffer
			if err := wire.WriteMessage(&b, r.msg, h.Pver, c14Net); err == nil {
				m2, _, err := wire.ReadMessage(bytes.NewReader(b.Bytes()), h.Pver, c14Net)
				if err != nil {
					return nil, fmt.Errorf("decoded hostile %s re-encodes to bytes that do not decode: %v", r.msg.Command(), err)
				}
				if render(m2) != render(project(r.msg, h.Pver)) {
					return nil, fmt.Errorf("decoded hostile %s does not round-trip:\n %s\n %s", r.msg.Command(), trunc(render(r.msg)), trunc(render(m2)))
				}
			}
		}
	}
	cl := map[string]int64{"hostile_inputs": 1, "class_" + h.Class: 1, "rejected": b2i(r.err != nil), "survivors": b2i(survivor), "small_limit": b2i(ebs < config.ExcessiveBlockSize)}
	return &stats.Case{Sig: stats.Sig(h.Pver, ebs, sha256.Sum256(raw)), Nontrivial: h.Reach, Classes: cl, Sample: sampleHostile(h)}, nil
}

func sampleHostile(h *C14Hostile) any {
	c := *h
	if len(c.Hex) > 600 {
		c.Hex = c.Hex[:600] + "..."
	}
	return c
}

var propC14H = Prop[*C14Hostile]{ID: "C14", Name: "TestC14Hostile", Gen: genC14Hostile, Run: runC14Hostile}

func TestC14Hostile(t *testing.T) {
	if propC14H.replayEnv(t) {
		return
	}
	propC14H.Check(t)
}

// FuzzC14ReadMessage is the native fuzz target (thorough tier): bytes -> decoder with the same oracle.
func FuzzC14ReadMessage(f *testing.F) {
	// ProcessInit reduces os.Args to the program name (the service's flag parsing must not see -test.* flags); the fuzzing
	// coordinator starts its workers from os.Args, so they are put back
	savedArgs := os.Args
	stack.ProcessInit()
	os.Args = savedArgs
	for cmd, pls := range seedPayloads() {
		for _, pl := range pls {
			f.Add(frameOf(cmd, pl, uint32(c14Net)), uint32(70016))
		}
	}
	// hostile constants
	f.Add(frameOf("headers", varint(1<<32), uint32(c14Net)), uint32(70016))
	f.Add(frameOf("inv", varint(50001), uint32(c14Net)), uint32(70016))
	f.Add(frameOf("addr", append(varint(1<<20), make([]byte, 30)...), uint32(c14Net)), uint32(70016))
	f.Add(frameOf("getheaders", append([]byte{1, 0, 0, 0}, varint(1<<33)...), uint32(c14Net)), uint32(70016))
	f.Add(frameOf("reject", append(varint(1<<31), 'x'), uint32(c14Net)), uint32(70016))
	f.Fuzz(func(t *testing.T, data []byte, pver uint32) {
		if len(data) > 1<<20 {
			t.Skip()
		}
		h := &C14Hostile{Pver: pver, EBS: 1000000, Hex: hex.EncodeToString(data), Class: "fuzz"}
		if _, err := runC14Hostile(h); err != nil && !strings.HasPrefix(err.Error(), "infra:") {
			t.Fatalf("%v", err)
		}
	})
}
