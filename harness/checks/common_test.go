package checks

import (
	"encoding/json"
	"fmt"
	"os"
	"path/filepath"
	"runtime/debug"
	"strings"
	"testing"
	"time"

	"github.com/bitcoin-sv/block-headers-service/verifharness/stats"
	"github.com/rs/zerolog"
	"pgregory.net/rapid"
)

func TestMain(m *testing.M) {
	code := m.Run()
	stats.Flush()
	os.Exit(code)
}

// verifDir is /verif (replays and known findings live there).
func verifDir() string {
	if d := os.Getenv("VERIF_DIR"); d != "" {
		return d
	}
	return "/verif"
}

// ---- known findings -------------------------------------------------------

type knownFinding struct {
	Property   string `json:"property"`
	ID         string `json:"id"`
	What       string `json:"what"`
	Reproducer string `json:"reproducer"`
}

type knownFile struct {
	Open  []knownFinding `json:"open"`
	Fixed []struct {
		Property string `json:"property"`
		Commit   string `json:"commit"`
		What     string `json:"what"`
		Line     string `json:"line"`
		Replay   string `json:"replay"`
	} `json:"fixed"`
}

var knownCache *knownFile

func loadKnown() *knownFile {
	if knownCache != nil {
		return knownCache
	}
	k := &knownFile{}
	b, err := os.ReadFile(filepath.Join(verifDir(), "known_findings.json"))
	if err == nil {
		_ = json.Unmarshal(b, k)
	}
	knownCache = k
	return k
}

// openFinding returns the open finding with that id (nil if not listed).
func openFinding(id string) *knownFinding {
	for i := range loadKnown().Open {
		if loadKnown().Open[i].ID == id {
			return &loadKnown().Open[i]
		}
	}
	return nil
}

// ---- generic property runner ---------------------------------------------

// Prop ties generator, executor and triage together.
type Prop[P any] struct {
	ID   string
	Name string // test name (for replay file names)
	Gen  func(*rapid.T) P
	Run  func(P) (*stats.Case, error)
	// Known maps a failing case to the id of a known finding ("" if none).
	// It is consulted only for ids listed as open in known_findings.json.
	Known func(P, error) string
}

type replayFile struct {
	Property string          `json:"property"`
	Test     string          `json:"test"`
	Message  string          `json:"message"`
	Plan     json.RawMessage `json:"plan"`
}

// safeRun converts panics of the code under test into errors.
func safeRun[P any](run func(P) (*stats.Case, error), p P) (c *stats.Case, err error) {
	defer func() {
		if r := recover(); r != nil {
			err = fmt.Errorf("panic: %v\n%s", r, trimStack(debug.Stack()))
		}
	}()
	return run(p)
}

func trimStack(b []byte) string {
	lines := strings.Split(string(b), "\n")
	if len(lines) > 40 {
		lines = lines[:40]
	}
	return strings.Join(lines, "\n")
}

// violDir is where replays of violations found by this run are written: a directory of its own per driver invocation
// (VERIF_VIOL_DIR), so that concurrent runs of the same check do not see each other's files.
func violDir(id string) string {
	dir := os.Getenv("VERIF_VIOL_DIR")
	if dir == "" {
		dir = filepath.Join(verifDir(), "replays", id)
	}
	_ = os.MkdirAll(dir, 0o755)
	return dir
}

func (p Prop[P]) replayPath() string {
	dir := violDir(p.ID)
	seed := os.Getenv("VERIF_SEED")
	if seed == "" {
		seed = "0"
	}
	return filepath.Join(dir, fmt.Sprintf("viol-%s-seed%s-shard%d.json", p.Name, seed, stats.Shard()))
}

func writeReplay[P any](path, id, test string, plan P, msg string) {
	pb, err := json.Marshal(plan)
	if err != nil {
		pb = []byte(fmt.Sprintf("%q", fmt.Sprintf("unserialisable plan: %v", err)))
	}
	b, _ := json.MarshalIndent(replayFile{Property: id, Test: test, Message: msg, Plan: pb}, "", " ")
	_ = os.WriteFile(path, b, 0o644)
}

// triage decides what a failing case is: a known finding (returns true,
// nothing to report) or a violation (replay written, returns false).
func (p Prop[P]) triage(plan P, err error) (known bool, path string) {
	if p.Known != nil {
		if id := p.Known(plan, err); id != "" {
			if kf := openFinding(id); kf != nil {
				stats.Exclude(id)
				stats.AddKnown(fmt.Sprintf("KNOWN-FINDING: property=%s %s (%s)", p.ID, kf.What, kf.ID))
				return true, ""
			}
		}
	}
	path = p.replayPath()
	writeReplay(path, p.ID, p.Name, plan, firstLine(err.Error()))
	return false, path
}

func firstLine(s string) string {
	if i := strings.IndexByte(s, '\n'); i >= 0 {
		return s[:i]
	}
	return s
}

// Check runs the property under rapid.
func (p Prop[P]) Check(t *testing.T) {
	stats.Setup(p.ID, p.Name)
	var lastPath, lastMsg string
	defer func() {
		if t.Failed() && lastPath != "" {
			stats.AddViolation(stats.Violation{Property: p.ID, Replay: lastPath, Message: lastMsg})
			stats.Flush()
		}
	}()
	rapid.Check(t, func(rt *rapid.T) {
		plan := p.Gen(rt)
		c, err := safeRun(p.Run, plan)
		for try := 0; try < 2 && err != nil && strings.HasPrefix(err.Error(), "infra:"); try++ {
			// the harness itself failed (a listener, a database file, a start-up): try the same plan again
			stats.Count("infra_retries", 1)
			time.Sleep(300 * time.Millisecond)
			c, err = safeRun(p.Run, plan)
		}
		if err != nil && strings.HasPrefix(err.Error(), "infra:") {
			// undecided, never a violation
			rt.Fatalf("%v", err)
		}
		if err != nil {
			known, path := p.triage(plan, err)
			if known {
				return
			}
			lastPath, lastMsg = path, firstLine(err.Error())
			rt.Fatalf("%s violated: %v", p.ID, err)
		}
		stats.Record(c)
	})
}

// CheckOne evaluates one explicitly constructed plan (enumerations).
func (p Prop[P]) CheckOne(t *testing.T, plan P, tag string) bool {
	c, err := safeRun(p.Run, plan)
	if err != nil {
		known, _ := p.triage(plan, err)
		if known {
			return true
		}
		dir := filepath.Dir(p.replayPath())
		path := filepath.Join(dir, fmt.Sprintf("viol-%s-%s.json", p.Name, tag))
		writeReplay(path, p.ID, p.Name, plan, firstLine(err.Error()))
		stats.AddViolation(stats.Violation{Property: p.ID, Replay: path, Message: firstLine(err.Error())})
		t.Errorf("%s violated (%s): %v", p.ID, tag, err)
		return false
	}
	stats.Record(c)
	return true
}

// ReplayFile re-executes a stored plan without rapid. Returns the error of the run.
func (p Prop[P]) ReplayFile(path string) error {
	b, err := os.ReadFile(path)
	if err != nil {
		return fmt.Errorf("replay: %w", err)
	}
	var rf replayFile
	if err := json.Unmarshal(b, &rf); err != nil {
		return fmt.Errorf("replay: %w", err)
	}
	var plan P
	if err := json.Unmarshal(rf.Plan, &plan); err != nil {
		return fmt.Errorf("replay: plan: %w", err)
	}
	_, err = safeRun(p.Run, plan)
	if err != nil {
		return fmt.Errorf("VIOLATED: %w", err)
	}
	return nil
}

// Regress runs every committed replay of the property:
//
//	reg-*.json   must pass (fixed defects, earlier shrunk failures)
//	kf-*.json    reproducers of open findings: must still fail; prints KNOWN-FINDING
func (p Prop[P]) Regress(t *testing.T) {
	stats.Setup(p.ID, p.Name)
	dir := filepath.Join(verifDir(), "replays", p.ID)
	files, _ := filepath.Glob(filepath.Join(dir, "*.json"))
	for _, f := range files {
		base := filepath.Base(f)
		var rf replayFile
		if b, err := os.ReadFile(f); err == nil {
			_ = json.Unmarshal(b, &rf)
		}
		if rf.Test != "" && rf.Test != p.Name {
			continue
		}
		switch {
		case strings.HasPrefix(base, "reg-"):
			if err := p.ReplayFile(f); err != nil {
				stats.AddViolation(stats.Violation{Property: p.ID, Replay: f, Message: firstLine(err.Error())})
				t.Errorf("regression replay %s: %v", base, err)
			} else {
				stats.Count("regression_replays_passed", 1)
			}
		case strings.HasPrefix(base, "kf-"):
			var kf *knownFinding
			for i := range loadKnown().Open {
				if filepath.Base(loadKnown().Open[i].Reproducer) == base && loadKnown().Open[i].Property == p.ID {
					kf = &loadKnown().Open[i]
				}
			}
			if kf == nil {
				continue // not listed: nothing is suppressed, nothing is claimed
			}
			// reproducers that depend on the engines' own random choices (e.g. which connection becomes the sync
			// peer) get three tries
			reproduced := false
			for try := 0; try < 3 && !reproduced; try++ {
				reproduced = p.ReplayFile(f) != nil
			}
			if reproduced {
				stats.AddKnown(fmt.Sprintf("KNOWN-FINDING: property=%s %s (%s)", p.ID, kf.What, kf.ID))
				stats.Count("known_finding_reproduced", 1)
			} else {
				stats.Count("known_finding_not_reproduced_this_run", 1)
			}
		}
	}
}

// replayEnv handles `./check <ID> --replay FILE`.
func (p Prop[P]) replayEnv(t *testing.T) bool {
	f := os.Getenv("VERIF_REPLAY")
	if f == "" {
		return false
	}
	stats.Setup(p.ID, p.Name)
	if err := p.ReplayFile(f); err != nil {
		stats.AddViolation(stats.Violation{Property: p.ID, Replay: f, Message: firstLine(err.Error())})
		t.Errorf("%v", err)
	}
	return true
}

func nopLogger() *zerolog.Logger {
	l := zerolog.Nop()
	return &l
}

func quickThorough(q, th int) int {
	if stats.Thorough() {
		return th
	}
	return q
}
