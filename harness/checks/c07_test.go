package checks

import (
	"fmt"
	"os"
	"strings"
	"testing"
	"time"

	"github.com/bitcoin-sv/block-headers-service/internal/chaincfg"
	"github.com/bitcoin-sv/block-headers-service/internal/chaincfg/chainhash"
	"github.com/bitcoin-sv/block-headers-service/internal/wire"
	"github.com/bitcoin-sv/block-headers-service/verifharness/model"
	"github.com/bitcoin-sv/block-headers-service/verifharness/simnet"
	"github.com/bitcoin-sv/block-headers-service/verifharness/stack"
	"github.com/bitcoin-sv/block-headers-service/verifharness/stats"
	"github.com/rs/zerolog"
	"pgregory.net/rapid"
)

// C07Plan: a sync scenario with one misbehaving node.
type C07Plan struct {
	Engine      string `json:"engine"`
	HonestLen   int    `json:"honestLen"`
	Checkpoints []int  `json:"checkpoints"`
	DisableCP   bool   `json:"disableCP"`
	Kind        string `json:"kind"`   // forbidden | checkpoint
	ForkAt      int    `json:"forkAt"` // the bad chain leaves the honest chain after this height
	BadLen      int    `json:"badLen"` // length of the bad branch
	Offset      int    `json:"offset"` // forbidden: index of the forbidden header within the bad branch
	// Delivery (forbidden kind): "" = in order; "skipParent" = the bad node leaves out the header just before the forbidden
	// one in its reply, "beforeParent" = it sends the forbidden header ahead of its parent: either way the forbidden header
	// arrives while its parent is unknown to the service
	// LightSide (checkpoint kind): the bad branch is much lighter than the honest chain and is delivered after the honest
	// headers below the checkpoint, so the contradicting header is STALE when it is stored
	LightSide bool `json:"lightSide,omitempty"`
	// BadOnce (legacy, checkpoint kind): the bad node accepts one connection at a time and is gone for good after its
	// offence; nobody announces anything afterwards - the service must move on to the honest nodes by itself
	BadOnce bool `json:"badOnce,omitempty"`
	// HangUp (legacy, forbidden kind, ban 3 s): the forbidden header comes late in a long first reply and the bad node closes
	// all its connections right after writing it, so its sender is gone when the service reaches the header; the host must
	// be banned all the same (it reconnects / is redialled during the ban)
	HangUp bool `json:"hangUp,omitempty"`
	// StrictRedelivery (reproducer of an open finding only): a connection on which the contradicting header is delivered
	// AGAIN (the service has it already) is expected to be closed as well
	StrictRedelivery bool   `json:"strictRedelivery,omitempty"`
	Delivery         string `json:"delivery,omitempty"`
	// NoConvergence (checkpoint kind, generator only): the plan's convergence needs the sync-peer rotation timer; only the
	// containment oracles are applied
	NoConvergence bool            `json:"noConvergence,omitempty"`
	BadCap        int             `json:"badCap"` // reply cap of the bad node
	BadSpec       simnet.NodeSpec `json:"badSpec"`
	Honest        int             `json:"honest"` // number of honest nodes (1-2)
	HonestCap     int             `json:"honestCap"`
	BadFirst      bool            `json:"badFirst"` // the bad node is the only node until its offence was observed (it is "chosen first")
	FinalAnn      bool            `json:"finalAnn"` // an honest node announces a new block at the end
	BanMs         int             `json:"banMs"`
	// Strict: after a checkpoint offence, demand convergence on the honest chain and that no contradicting header stays
	// on the longest chain. The search pass sets it only where the open finding
	// C07-checkpoint-contradiction-stored-before-verified does not apply (legacy engine, single checkpoint, final announcement).
	Strict bool `json:"strict"`
	// IgnoreStop: the bad node's replies do not end at the requested stop hash (a matching checkpoint header then
	// arrives in the middle of a batch)
	IgnoreStop bool `json:"ignoreStop"`
	VariantB   bool `json:"variantB,omitempty"`
	WaitMs     int  `json:"waitMs,omitempty"` // replay files of known findings: one attempt with this bound
}

func runC07(p *C07Plan) (*stats.Case, error) {
	var firstErr error
	if p.WaitMs > 0 {
		return runC07Once(p, false)
	}
	for attempt := 0; attempt < 3; attempt++ {
		c, err := runC07Once(p, attempt > 0)
		if err == nil {
			if attempt > 0 {
				stats.Count("inconclusive_timeouts_passed_on_retry", 1)
			}
			return c, nil
		}
		if strings.HasPrefix(err.Error(), "infra:") || !strings.Contains(err.Error(), "within") {
			return nil, err
		}
		if firstErr == nil {
			firstErr = err
		}
	}
	return nil, fmt.Errorf("%w (failed 3 of 3 attempts, the last two with a longer bound)", firstErr)
}

func runC07Once(p *C07Plan, long bool) (*stats.Case, error) {
	wait := 10 * time.Second
	if long {
		wait = 25 * time.Second
	}
	if p.WaitMs > 0 {
		wait = time.Duration(p.WaitMs) * time.Millisecond
	}
	if c06Dir == "" {
		c06Dir = scratchDir("c06")
	}
	u := simnet.NewUniverse(p.HonestLen + 60)
	honest := u.Extend(nil, p.HonestLen, 0, 0x1d00ffff)
	forkAt := p.ForkAt
	if forkAt >= p.HonestLen {
		forkAt = p.HonestLen - 1
	}
	badBits := uint32(0x1d00ffff)
	if p.LightSide {
		badBits = 0x1e00ffff // every block of the bad branch has 1/256 of the work of an honest block
	}
	bad := u.Extend(append([]*simnet.Block{}, honest[:forkAt]...), p.BadLen, 7, badBits)
	var cps []chaincfg.Checkpoint
	for _, h := range p.Checkpoints {
		if h >= 1 && h <= len(honest) {
			hash := honest[h-1].Hash
			cps = append(cps, chaincfg.Checkpoint{Height: int32(h), Hash: &hash})
		}
	}
	if p.Engine == "legacy" && len(cps) == 0 {
		return nil, fmt.Errorf("infra: legacy engine needs checkpoints")
	}
	offending := map[chainhash.Hash]bool{}
	var forbidden *simnet.Block
	switch p.Kind {
	case "forbidden":
		off := p.Offset
		if off >= p.BadLen {
			off = p.BadLen - 1
		}
		forbidden = bad[forkAt+off]
		offending[forbidden.Hash] = true
	case "checkpoint":
		// every bad header at a checkpoint height contradicts the checkpoint
		for _, c := range cps {
			if int(c.Height) > forkAt && int(c.Height) <= len(bad) {
				offending[bad[c.Height-1].Hash] = true
			}
		}
		if len(offending) == 0 {
			return nil, fmt.Errorf("infra: plan without a contradicted checkpoint")
		}
	}
	// nodes: index 0..Honest-1 honest, last = bad
	var nodes []*simnet.Node
	defer func() {
		for _, n := range nodes {
			n.Close()
		}
	}()
	for i := 0; i < p.Honest; i++ {
		start := honest
		hs := simnet.NodeSpec{Pver: 70015, Cap: p.HonestCap}
		if p.BadFirst && p.Engine == "legacy" {
			// the honest nodes are not sync candidates yet (no NODE_NETWORK bit): the bad node is the only one the
			// service can sync from; they reconnect as full nodes after the offence
			hs.Services = uint64(wire.SFNodeBloom)
		}
		n, err := simnet.NewNode(i, hs, u.Genesis, start)
		if err != nil {
			return nil, fmt.Errorf("infra: %w", err)
		}
		nodes = append(nodes, n)
	}
	bs := p.BadSpec
	bs.Cap = p.BadCap
	bs.IgnoreStop = p.IgnoreStop
	badNode, err := simnet.NewNode(p.Honest, bs, u.Genesis, bad)
	if err != nil {
		return nil, fmt.Errorf("infra: %w", err)
	}
	badNode.Offending = offending
	// a forbidden header is rejected on every delivery (it is never stored); a checkpoint-contradicting header that is
	// delivered again is skipped as a duplicate by both engines (open finding C07-checkpoint-contradiction-redelivered)
	badNode.RedeliveryCounts = p.Kind == "forbidden" || p.StrictRedelivery
	badNode.HangUpAfterOffence = p.HangUp
	if p.Kind == "forbidden" && p.Delivery != "" {
		fh := forbidden.Hash
		badNode.Insert = func(reply []*wire.BlockHeader, _ int, _ int) ([]*wire.BlockHeader, bool) {
			for i, h := range reply {
				if i >= 1 && h.BlockHash() == fh {
					out := append([]*wire.BlockHeader{}, reply...)
					if p.Delivery == "skipParent" {
						out = append(out[:i-1], out[i:]...)
					} else {
						out[i-1], out[i] = out[i], out[i-1]
					}
					stats.Count("forbidden_delivered_before_its_parent", 1)
					return out, true
				}
			}
			return reply, false
		}
	}
	if p.Kind == "checkpoint" && p.LightSide && forkAt < len(bad) {
		// the reply that starts the bad branch first carries the honest headers from the fork point up to just below the
		// contradicted checkpoint: the bad branch (lighter) is then stored as STALE, and the header that contradicts the
		// checkpoint arrives as a STALE header at the checkpoint height
		first := bad[forkAt].Hash
		upTo := 0
		for _, c := range cps {
			if int(c.Height) > forkAt && int(c.Height) <= len(bad) && upTo == 0 {
				upTo = int(c.Height) - 1
			}
		}
		badNode.Insert = func(reply []*wire.BlockHeader, _ int, _ int) ([]*wire.BlockHeader, bool) {
			for i, h := range reply {
				if h.BlockHash() == first && upTo > forkAt {
					out := append([]*wire.BlockHeader{}, reply[:i]...)
					for _, hb := range honest[forkAt:upTo] {
						out = append(out, hb.H)
					}
					out = append(out, reply[i:]...)
					stats.Count("contradiction_delivered_on_a_stale_side_branch", 1)
					return out, false
				}
			}
			return reply, false
		}
	}
	nodes = append(nodes, badNode)

	env := simnet.Install(nodes, cps)
	defer env.Restore()
	savedIgnore := chaincfg.MainNetParams.HeadersToIgnore
	defer func() { chaincfg.MainNetParams.HeadersToIgnore = savedIgnore }()
	if forbidden != nil {
		h := forbidden.Hash
		chaincfg.MainNetParams.HeadersToIgnore = append(append([]*chainhash.Hash{}, savedIgnore...), &h)
	}
	stack.RemoveDB(c06Dir + "/bhs.db")
	var s *stack.Stack
	var srv simnet.P2PServer
	ban := time.Duration(p.BanMs) * time.Millisecond
	sopts := stack.Options{Dir: c06Dir}
	if lp := os.Getenv("VERIF_DEBUG_LOG"); lp != "" {
		if f, ferr := os.Create(lp); ferr == nil {
			l := zerolog.New(f).With().Timestamp().Logger()
			sopts.Logger = &l
		}
	}
	if p.Engine == "legacy" {
		s, srv, err = simnet.StartLegacy(sopts, p.DisableCP, ban)
		if err != nil {
			return nil, fmt.Errorf("infra: %w", err)
		}
		defer func() {
			done := make(chan struct{})
			go func() { _ = srv.Shutdown(); close(done) }()
			select {
			case <-done:
			case <-time.After(10 * time.Second):
			}
			s.Close()
		}()
	} else {
		s, err = stack.New(sopts)
		if err != nil {
			return nil, fmt.Errorf("infra: %w", err)
		}
		defer s.Close()
	}
	notServed := func(where string) error {
		if forbidden == nil {
			return nil
		}
		fh := forbidden.Hash.String()
		rows, _ := s.Headers()
		for _, r := range rows {
			if r.Hash == fh {
				return fmt.Errorf("%s: forbidden header %s is in the headers table (state %s)", where, fh, r.State)
			}
		}
		for _, path := range []string{"/api/v1/chain/header/" + fh, "/api/v1/chain/header/state/" + fh} {
			if resp := s.Get(path); resp.Code == 200 {
				return fmt.Errorf("%s: forbidden header is served by GET %s", where, path)
			}
		}
		if resp := s.Get(fmt.Sprintf("/api/v1/chain/header/byHeight?height=%d&count=1", forbidden.Height)); strings.Contains(string(resp.Body), `"hash":"`+fh+`"`) {
			return fmt.Errorf("%s: forbidden header is served by byHeight", where)
		}
		if resp := s.Get("/api/v1/chain/tip"); strings.Contains(string(resp.Body), `"hash":"`+fh+`"`) {
			return fmt.Errorf("%s: forbidden header is served as a tip", where)
		}
		return nil
	}
	tipIs := func(b *simnet.Block) bool {
		t := s.Services.Headers.GetTip()
		return t != nil && t.Hash == b.Hash
	}

	// --- phase 1: the service meets the bad node ---------------------------------------------
	offended := func() bool { return badNode.OffendedConnsOpen() == 0 && hasOffended(badNode) }
	if p.Engine == "exp" {
		ep, err := simnet.ExpPeer(s, badNode, nil)
		if err != nil {
			return nil, fmt.Errorf("experimental peer could not start with the bad node: %v", err)
		}
		defer simnet.SafeDisconnect(ep)
	} else if !p.BadFirst {
		// the bad node announces its tip so that the service asks it even if it is not the sync peer
		time.Sleep(300 * time.Millisecond)
		badNode.MineWhenReady(u.Extend(bad, 1, 7, 0x1d00ffff)[len(bad):], true, 5*time.Second)
	}
	deadline := time.Now().Add(wait)
	if p.Engine == "legacy" && !p.BadFirst && !long {
		deadline = time.Now().Add(4 * time.Second) // the bad node may simply never be asked (not the sync peer, announcement ignored)
	}
	for time.Now().Before(deadline) && !offended() {
		if err := notServed("during sync"); err != nil {
			return nil, err
		}
		time.Sleep(5 * time.Millisecond)
	}
	sawOffence := hasOffended(badNode)
	if sawOffence {
		// (2) the offending connection is closed by the service and nothing further is requested on it
		if !offended() {
			return nil, fmt.Errorf("the %s-violating node was not disconnected within %v after its offending reply (open offended connections: %d)", p.Kind, wait, badNode.OffendedConnsOpen())
		}
		time.Sleep(150 * time.Millisecond)
		if n := badNode.RequestsAfterOffence(); n > 0 {
			return nil, fmt.Errorf("%d getheaders were sent to the misbehaving node on the connection that delivered the offending header", n)
		}
	}
	if err := notServed("after the offence"); err != nil {
		return nil, err
	}
	if p.BadOnce {
		badNode.RefuseNew()
		badNode.DropAll()
	}
	// (3) legacy + forbidden: the host is banned: no request reaches it during the ban
	banChecked := false
	if sawOffence && p.Engine == "legacy" && p.Kind == "forbidden" && p.BanMs >= 1500 {
		tOff := badNode.FirstOffenceAt()
		// the bad node drops its other connections: the service dials replacements, some of them to the banned host
		badNode.DropAll()
		time.Sleep(time.Until(tOff.Add(time.Duration(p.BanMs-400) * time.Millisecond)))
		// a connection from the banned host must be dropped at once: none whose handshake completed well inside the ban may
		// have been kept for 1.5 s. (A getheaders on such a connection is NOT counted: the sync manager is told about a new
		// peer before the server's admission check runs, so a connection that is dropped a moment later may have been asked.)
		asked, longLived, attempts := badNode.AdmittedDetail(tOff.Add(150*time.Millisecond), tOff.Add(time.Duration(p.BanMs-2000)*time.Millisecond), 1500*time.Millisecond)
		if longLived > 0 {
			return nil, fmt.Errorf("%d of %d connections to the banned host made during its ban of %d ms were kept open for 1.5 s or more (admitted as peers)", longLived, attempts, p.BanMs)
		}
		stats.Count("ban_window_getheaders_before_admission_check", int64(asked))
		stats.Count("ban_window_connection_attempts", int64(attempts))
		banChecked = true
	}
	// (4) descendants of the forbidden header can only be orphans
	if forbidden != nil && int(forbidden.Height) < len(bad) {
		child := bad[forbidden.Height] // height+1
		bh, err := s.Services.Chains.Add(toSourceWire(child))
		if err == nil && bh != nil && string(bh.State) != model.Orphan {
			return nil, fmt.Errorf("child of the forbidden header was stored as %s", bh.State)
		}
	}
	// --- phase 2: convergence on the honest chain ---------------------------------------------
	target := honest
	if p.Engine == "exp" {
		ep2, err := simnet.ExpPeer(s, nodes[0], nil)
		if err != nil {
			return nil, fmt.Errorf("experimental peer could not start with the honest node after the offence: %v", err)
		}
		defer simnet.SafeDisconnect(ep2)
	}
	if p.BadFirst && p.Engine == "legacy" {
		for i := 0; i < p.Honest; i++ {
			nodes[i].SetServices(uint64(wire.SFNodeNetwork))
			nodes[i].DropAll()
		}
	}
	if p.FinalAnn {
		time.Sleep(200 * time.Millisecond)
		ext := u.Extend(target, 1, 0, 0x1d00ffff)
		for i := 0; i < p.Honest; i++ {
			if p.Engine == "exp" && i > 0 {
				nodes[i].Mine(ext[len(target):], false) // the experimental engine talks to node 0 only
			} else {
				nodes[i].MineWhenReady(ext[len(target):], true, 5*time.Second)
			}
		}
		target = ext
	}
	if p.Kind == "checkpoint" && !p.Strict {
		cl := map[string]int64{"scenarios": 1, "kind_" + p.Kind: 1, "engine_" + p.Engine: 1, "offence_observed": b2i(sawOffence), "convergence_not_demanded": 1}
		return &stats.Case{Sig: stats.Sig(fmt.Sprintf("%+v", *p)), Nontrivial: sawOffence, Classes: cl, Sample: p}, nil
	}
	if !simnet.WaitQuiescent(nodes, func() bool { return tipIs(target[len(target)-1]) }, 120*time.Millisecond, wait) {
		tip := s.Services.Headers.GetTip()
		return nil, fmt.Errorf("after the %s offence the service did not converge on the honest chain within %v: tip height %d (%s), honest tip height %d; bad node offence seen=%v, final announcement=%v, engine %s, checkpoints %v",
			p.Kind, wait, tip.Height, tip.Hash.String()[:12], len(target), sawOffence, p.FinalAnn, p.Engine, p.Checkpoints)
	}
	if err := notServed("final"); err != nil {
		return nil, err
	}
	heights := map[chainhash.Hash]int32{u.Genesis: 0}
	for _, n := range nodes {
		for _, b := range n.Chain() {
			heights[b.Hash] = b.Height
		}
	}
	_ = heights
	rows, _ := s.Headers()
	if err := checkStructure(rows); err != nil {
		return nil, fmt.Errorf("final: %w", err)
	}
	if p.Kind == "checkpoint" {
		// no contradicting header may remain on the longest chain at a checkpoint height
		for _, r := range rows {
			if r.State == model.Longest {
				for _, c := range cps {
					if int64(c.Height) == r.Height && r.Hash != c.Hash.String() {
						return nil, fmt.Errorf("final: longest chain has %s at checkpoint height %d, checkpoint is %s", r.Hash, r.Height, c.Hash)
					}
				}
			}
		}
	}
	cl := map[string]int64{"scenarios": 1, "kind_" + p.Kind: 1, "engine_" + p.Engine: 1, "offence_observed": b2i(sawOffence), "contradiction_redelivered_and_skipped_as_duplicate": int64(badNode.Redeliveries()), "ban_window_checked": b2i(banChecked),
		"with_final_announcement": b2i(p.FinalAnn), "bad_first": b2i(p.BadFirst), "sender_hangs_up_before_the_forbidden_header_is_reached": b2i(p.HangUp && sawOffence)}
	nt := sawOffence && (p.Offset > 0 || p.Kind == "checkpoint") && p.Honest >= 1
	return &stats.Case{Sig: stats.Sig(fmt.Sprintf("%+v", *p)), Nontrivial: nt, Classes: cl, Sample: p}, nil
}

func hasOffended(n *simnet.Node) bool { return n.EverOffended() }

func genC07(t *rapid.T) *C07Plan {
	p := &C07Plan{Engine: rapid.SampledFrom([]string{"legacy", "legacy", "exp"}).Draw(t, "engine"), Kind: rapid.SampledFrom([]string{"forbidden", "forbidden", "checkpoint"}).Draw(t, "kind")}
	p.HonestLen = rapid.IntRange(8, quickThorough(60, 200)).Draw(t, "len")
	p.Honest = rapid.IntRange(1, 2).Draw(t, "nh")
	p.HonestCap = 2000
	p.FinalAnn = true
	p.BanMs = rapid.SampledFrom([]int{0, 0, 3000}).Draw(t, "ban")
	p.BadSpec.Pver = rapid.SampledFrom([]uint32{70015, 70011}).Draw(t, "pver")
	switch p.Kind {
	case "forbidden":
		p.ForkAt = rapid.IntRange(0, p.HonestLen-3).Draw(t, "forkat")
		p.BadLen = rapid.IntRange(1, 8).Draw(t, "badlen")
		if p.ForkAt+p.BadLen >= p.HonestLen {
			p.BadLen = p.HonestLen - p.ForkAt - 1
		}
		p.Offset = rapid.IntRange(0, p.BadLen-1).Draw(t, "off")
		p.BadCap = rapid.SampledFrom([]int{2000, 1, 2, 3, 5}).Draw(t, "cap")
		// checkpoints below the fork point or none in the way: the bad branch stays clear of checkpoint heights
		if p.ForkAt >= 1 {
			p.Checkpoints = []int{rapid.IntRange(1, p.ForkAt).Draw(t, "cp")}
		} else {
			p.Checkpoints = []int{p.HonestLen} // far above the short bad branch
			p.BadLen = 1 + p.Offset
			if p.BadLen > p.HonestLen-2 {
				p.BadLen = p.HonestLen - 2
				p.Offset = p.BadLen - 1
			}
		}
		if p.Engine == "legacy" {
			p.DisableCP = rapid.IntRange(0, 4).Draw(t, "dcp") == 0
		}
		p.Delivery = rapid.SampledFrom([]string{"", "", "skipParent", "beforeParent"}).Draw(t, "delivery")
		if p.Engine == "legacy" && rapid.IntRange(0, 5).Draw(t, "hangup") == 0 {
			p.HangUp = true
			p.HonestLen = rapid.IntRange(250, 600).Draw(t, "hlen")
			p.ForkAt = p.HonestLen - rapid.IntRange(4, 40).Draw(t, "hfork")
			p.BadLen = rapid.IntRange(1, 3).Draw(t, "hbad")
			p.Offset = rapid.IntRange(0, p.BadLen-1).Draw(t, "hoff")
			p.Checkpoints = []int{rapid.IntRange(1, 20).Draw(t, "hcp")}
			p.BadCap, p.BadFirst, p.BanMs, p.Delivery = 2000, true, 3000, ""
		}
	case "checkpoint":
		c := rapid.IntRange(3, p.HonestLen-2).Draw(t, "cp")
		p.Checkpoints = []int{c}
		p.ForkAt = c - rapid.IntRange(1, min(c, 4)).Draw(t, "below")
		p.BadLen = c - p.ForkAt + rapid.IntRange(0, 2).Draw(t, "beyond")
		p.BadCap = rapid.SampledFrom([]int{2000, 2000, 2, 3}).Draw(t, "cap")
		// the contradiction is met while that checkpoint is still ahead: the bad node is the first one the service syncs from
		p.BadFirst = true
		// The contradicted checkpoint is the last one of the list. A bad branch that ends below a later checkpoint
		// leaves the legacy manager with a sync peer that has nothing more to give while the chain is "not current"
		// (announcements of other peers are ignored below the last checkpoint): that is C06's lagging-sync-peer class,
		// which needs the manager's rotation timer; a bad branch that reaches a later checkpoint as well is the open
		// finding C07-checkpoint-contradiction-stored-before-verified.
		switch rapid.SampledFrom([]string{"single", "below", "between", "above"}).Draw(t, "cps") {
		case "above":
			// an intermediate checkpoint is contradicted: a later one lies out of the bad branch's reach. Legacy engine:
			// containment only (the service may end on another connection of the bad node below the last checkpoint, from
			// where it moves on only by the sync-peer rotation: C06's slow class)
			if c+5 <= p.HonestLen-1 {
				p.Checkpoints = []int{c, rapid.IntRange(c+4, p.HonestLen-1).Draw(t, "cpabove")}
				p.NoConvergence = p.Engine == "legacy"
			}
		case "below":
			if p.ForkAt >= 1 {
				p.Checkpoints = []int{rapid.IntRange(1, p.ForkAt).Draw(t, "cpa"), c}
			}
		case "between":
			if c+2 <= p.HonestLen-1 {
				// variant B: the bad branch matches the first checkpoint and contradicts the second one; the bad node ignores
				// the stop hash and its batches end between the two, so the matching header sits in the middle of a batch
				c1, c2 := c, rapid.IntRange(c+2, p.HonestLen-1).Draw(t, "cpb")
				p.Checkpoints = []int{c1, c2}
				p.ForkAt = rapid.IntRange(c1, c2-1).Draw(t, "forkbetween")
				p.BadLen = c2 - p.ForkAt + rapid.IntRange(0, 2).Draw(t, "beyond2")
				p.BadCap = rapid.IntRange(c1+1, c2-1+1).Draw(t, "capbetween")
				if p.BadCap >= c2 {
					p.BadCap = c2 - 1
				}
				if p.BadCap <= c1 {
					p.BadCap = c1 + 1
				}
				p.IgnoreStop = true
				p.VariantB = true
			}
		}
		if p.Engine == "legacy" && !p.VariantB && c-p.ForkAt >= 2 && rapid.IntRange(0, 2).Draw(t, "lightside") == 0 {
			p.LightSide = true
			p.BadCap = 2000
			// containment only: afterwards another connection of the bad node is picked as sync peer, claims a height the
			// service never reaches (its light branch stays STALE) and answers with known headers only - the manager moves
			// on by its sync-peer rotation, not within this check's bound
			p.NoConvergence = true
		}
		if p.Engine == "legacy" && !p.VariantB && !p.LightSide && !p.NoConvergence && rapid.IntRange(0, 2).Draw(t, "badonce") == 0 {
			p.BadOnce = true
			p.BadSpec.MaxConns = 1
			p.FinalAnn = false
		}
		// the honest chain stays strictly heavier than the bad branch (equal work would leave the first-seen branch as tip)
		if over := p.ForkAt + p.BadLen - (p.HonestLen - 1); over > 0 {
			p.BadLen -= over
		}
		p.Strict = !p.NoConvergence
	}
	return p
}

// c07Known maps failures of the two open checkpoint findings to their ids.
func c07Known(p *C07Plan, err error) string {
	if p.Kind != "checkpoint" {
		return ""
	}
	msg := err.Error()
	if p.StrictRedelivery && strings.Contains(msg, "was not disconnected") {
		return "C07-checkpoint-contradiction-redelivered"
	}
	if !p.BadFirst && strings.Contains(msg, "was not disconnected") {
		return "C07-checkpoint-contradiction-after-checkpoint-passed"
	}
	if p.BadFirst && p.Engine == "legacy" && len(p.Checkpoints) > 1 && !p.VariantB && p.ForkAt+p.BadLen >= p.Checkpoints[1] && strings.Contains(msg, "was not disconnected") {
		return "C07-checkpoint-contradiction-stored-before-verified"
	}
	return ""
}

var propC07 = Prop[*C07Plan]{ID: "C07", Name: "TestC07", Gen: genC07, Run: runC07, Known: c07Known}

func TestC07(t *testing.T) {
	if propC07.replayEnv(t) {
		return
	}
	propC07.Check(t)
}

func TestC07Regress(t *testing.T) { propC07.Regress(t) }
