package checks

import (
	"fmt"
	"net"
	"os"
	"path/filepath"
	"strings"
	"testing"
	"time"

	"github.com/bitcoin-sv/block-headers-service/domains"
	"github.com/bitcoin-sv/block-headers-service/internal/chaincfg"
	"github.com/bitcoin-sv/block-headers-service/internal/chaincfg/chainhash"
	exppeer "github.com/bitcoin-sv/block-headers-service/internal/transports/p2p/peer"
	"github.com/bitcoin-sv/block-headers-service/internal/wire"
	"github.com/bitcoin-sv/block-headers-service/verifharness/hist"
	"github.com/bitcoin-sv/block-headers-service/verifharness/model"
	"github.com/bitcoin-sv/block-headers-service/verifharness/simnet"
	"github.com/bitcoin-sv/block-headers-service/verifharness/stack"
	"github.com/bitcoin-sv/block-headers-service/verifharness/stats"
	"github.com/rs/zerolog"
	"pgregory.net/rapid"
)

// ForkSpec is a branch leaving the honest chain after height At.
type ForkSpec struct {
	At   int    `json:"at"`
	Len  int    `json:"len"`
	Bits uint32 `json:"bits"`
}

// C06Node is one scripted node.
type C06Node struct {
	Branch int             `json:"branch"` // -1 honest chain, i = fork i
	Lag    int             `json:"lag"`    // blocks of its branch the node does not have initially
	Spec   simnet.NodeSpec `json:"spec"`
}

// C06Event: a node mines/learns blocks and announces them.
type C06Event struct {
	Node int `json:"node"`
	K    int `json:"k"`    // number of new blocks (for lagging nodes: catch-up blocks first)
	When int `json:"when"` // 0 = after quiescence of the initial sync; n>0 = when that node has received n getheaders
	// Reorg d > 0 (single-node plans, after the sync): the node abandons its last d blocks for a competing branch of d
	// blocks whose first block carries 256 times the work, and announces the new tip - the service's tip is not on the
	// node's best chain any more
	Reorg int `json:"reorg,omitempty"`
}

// C06Plan is one sync scenario.
type C06Plan struct {
	Engine      string     `json:"engine"` // legacy | exp
	HonestLen   int        `json:"honestLen"`
	Forks       []ForkSpec `json:"forks"`
	Nodes       []C06Node  `json:"nodes"`
	Checkpoints []int      `json:"checkpoints"` // heights on the honest chain, ascending
	DisableCP   bool       `json:"disableCP"`
	Initial     string     `json:"initial"` // genesis | prefix | stalefork | tallstale | forkfirst
	InitialArg  int        `json:"initialArg"`
	Events      []C06Event `json:"events"`
	ExpInbound  bool       `json:"expInbound"` // experimental engine: a second, inbound peer (node 1 if present)
	// Takeover (legacy): node 0 (honest, full) is no sync candidate at first (no NODE_NETWORK), so the service syncs from
	// node 1, whose connections close at their k-th getheaders; node 0 becomes a candidate when the first one has closed.
	Takeover bool `json:"takeover,omitempty"`
	WaitMs   int  `json:"waitMs,omitempty"`
}

type scenario struct {
	p      *C06Plan
	u      *simnet.Universe
	honest []*simnet.Block // final honest chain incl. blocks mined by events
	forks  [][]*simnet.Block
	nodes  []*simnet.Node
	env    *simnet.Env
	s      *stack.Stack
	srv    simnet.P2PServer
	exp    []*exppeer.Peer
	ln     net.Listener
	dir    string
	cps    []chaincfg.Checkpoint
}

var c06Dir string

// buildScenario creates universe, nodes, environment and the service under test.
func buildScenario(p *C06Plan, wrap stack.Options) (*scenario, error) {
	if c06Dir == "" {
		c06Dir = scratchDir("c06")
	}
	sc := &scenario{p: p, dir: c06Dir}
	extra := 0
	for _, e := range p.Events {
		extra += e.K
	}
	sc.u = simnet.NewUniverse(p.HonestLen + extra + 50)
	sc.honest = sc.u.Extend(nil, p.HonestLen, 0, 0x1d00ffff)
	for i, f := range p.Forks {
		at := f.At
		if at > p.HonestLen {
			at = p.HonestLen
		}
		base := append([]*simnet.Block{}, sc.honest[:at]...)
		sc.forks = append(sc.forks, sc.u.Extend(base, f.Len, i+1, f.Bits))
	}
	for _, h := range p.Checkpoints {
		if h >= 1 && h <= len(sc.honest) {
			hash := sc.honest[h-1].Hash
			sc.cps = append(sc.cps, chaincfg.Checkpoint{Height: int32(h), Hash: &hash})
		}
	}
	if p.Engine == "legacy" && len(sc.cps) == 0 {
		return nil, fmt.Errorf("infra: legacy engine needs a non-empty checkpoint list")
	}
	for i, n := range p.Nodes {
		chain := sc.honest
		if n.Branch >= 0 && n.Branch < len(sc.forks) {
			chain = sc.forks[n.Branch]
		}
		have := len(chain) - n.Lag
		if have < 0 {
			have = 0
		}
		node, err := simnet.NewNode(i, n.Spec, sc.u.Genesis, chain[:have])
		if err != nil {
			return nil, fmt.Errorf("infra: %w", err)
		}
		sc.nodes = append(sc.nodes, node)
	}
	sc.env = simnet.Install(sc.nodes, sc.cps)
	stack.RemoveDB(filepath.Join(sc.dir, "bhs.db"))
	// initial store
	if p.Initial != "genesis" && p.Initial != "" {
		s0, err := stack.New(stack.Options{Dir: sc.dir})
		if err != nil {
			return nil, fmt.Errorf("infra: %w", err)
		}
		add := func(bs []*simnet.Block) {
			for _, b := range bs {
				_, _ = s0.Services.Chains.Add(toSourceWire(b))
			}
		}
		k := p.InitialArg
		if k > len(sc.honest) {
			k = len(sc.honest)
		}
		switch p.Initial {
		case "prefix":
			add(sc.honest[:k])
		case "tallstale":
			// a stale branch with MORE blocks but far less work than the honest prefix (every block 65536 times lighter),
			// taller than anything a node will announce: heights of stale headers must not be mistaken for the tip's
			if k < 1 {
				k = 1
			}
			add(sc.honest[:k])
			add(sc.u.Extend(nil, len(sc.honest)+extra+7, 98, 0x1f00ffff)) // 65536 times lighter: even 4 500 of them weigh less than one honest block
		case "forkfirst":
			// the database was synced on the weaker branch of the first fork (its tip is the service's tip): the honest chain
			// must take over, however many replies that needs and wherever the locator's sparse part meets the honest chain
			if len(sc.forks) > 0 {
				add(sc.forks[0])
			} else {
				add(sc.honest[:k])
			}
		case "stalefork":
			// a short stale branch of its own plus a prefix of the honest chain
			add(sc.honest[:k])
			if k > 1 {
				st := sc.u.Extend(append([]*simnet.Block{}, sc.honest[:k-1]...), 1, 99, 0x1d00ffff)
				add(st[k-1:])
			}
		}
		s0.Close()
	}
	var err error
	opts := wrap
	opts.Dir = sc.dir
	if lp := os.Getenv("VERIF_DEBUG_LOG"); lp != "" {
		if f, ferr := os.Create(lp); ferr == nil {
			l := zerolog.New(f).With().Timestamp().Logger()
			opts.Logger = &l
		}
	}
	if p.Engine == "legacy" {
		sc.s, sc.srv, err = simnet.StartLegacy(opts, p.DisableCP, 0)
		if err != nil {
			return nil, fmt.Errorf("infra: %w", err)
		}
	} else {
		sc.s, err = stack.New(opts)
		if err != nil {
			return nil, fmt.Errorf("infra: %w", err)
		}
		ep, err := simnet.ExpPeer(sc.s, sc.nodes[0], nil)
		if err != nil {
			return nil, fmt.Errorf("experimental peer could not connect/start: %v", err)
		}
		sc.exp = append(sc.exp, ep)
		if p.ExpInbound && len(sc.nodes) > 1 {
			sc.ln, err = net.Listen("tcp", "127.0.0.1:0")
			if err != nil {
				return nil, fmt.Errorf("infra: %w", err)
			}
			ep2, err := simnet.ExpPeer(sc.s, sc.nodes[1], sc.ln)
			if err != nil {
				return nil, fmt.Errorf("experimental inbound peer could not connect/start: %v", err)
			}
			sc.exp = append(sc.exp, ep2)
		}
	}
	return sc, nil
}

func (sc *scenario) close() {
	if sc.srv != nil {
		done := make(chan struct{})
		go func() { _ = sc.srv.Shutdown(); close(done) }()
		select {
		case <-done:
		case <-time.After(10 * time.Second):
		}
	}
	for _, n := range sc.nodes {
		n.Close()
	}
	for _, e := range sc.exp {
		simnet.SafeDisconnect(e)
	}
	if sc.ln != nil {
		_ = sc.ln.Close()
	}
	if sc.env != nil {
		sc.env.Restore()
	}
	if sc.s != nil {
		sc.s.Close()
	}
}

// restartService stops the engine and the stack and starts both again on the same database file.
func (sc *scenario) restartService() error {
	if sc.srv != nil {
		done := make(chan struct{})
		go func() { _ = sc.srv.Shutdown(); close(done) }()
		select {
		case <-done:
		case <-time.After(10 * time.Second):
		}
		sc.srv = nil
	}
	for _, e := range sc.exp {
		simnet.SafeDisconnect(e)
	}
	sc.exp = nil
	sc.s.Close()
	sc.s = nil
	opts := stack.Options{Dir: sc.dir}
	var err error
	if sc.p.Engine == "legacy" {
		sc.s, sc.srv, err = simnet.StartLegacy(opts, sc.p.DisableCP, 0)
		if err != nil {
			return fmt.Errorf("infra: restart: %w", err)
		}
		return nil
	}
	sc.s, err = stack.New(opts)
	if err != nil {
		return fmt.Errorf("infra: restart: %w", err)
	}
	ep, err := simnet.ExpPeer(sc.s, sc.nodes[0], nil)
	if err != nil {
		return fmt.Errorf("experimental peer could not connect/start after the restart: %v", err)
	}
	sc.exp = append(sc.exp, ep)
	return nil
}

// heightOf maps every hash of the universe to its height.
func (sc *scenario) heightOf() map[chainhash.Hash]int32 {
	m := map[chainhash.Hash]int32{sc.u.Genesis: 0}
	for _, b := range sc.honest {
		m[b.Hash] = b.Height
	}
	for _, f := range sc.forks {
		for _, b := range f {
			m[b.Hash] = b.Height
		}
	}
	for _, n := range sc.nodes {
		for _, b := range n.Chain() {
			m[b.Hash] = b.Height
		}
	}
	return m
}

// checkStops: every getheaders carries the zero stop or the hash of a checkpoint that still lies ahead of the
// position it asks from ("a matching header advances sync to the next checkpoint and, after the last one, to
// unbounded requests").
func checkStops(nodes []*simnet.Node, cps []chaincfg.Checkpoint, heights map[chainhash.Hash]int32) error {
	var zero chainhash.Hash
	cpHeight := map[chainhash.Hash]int32{}
	for _, c := range cps {
		cpHeight[*c.Hash] = c.Height
	}
	for i, n := range nodes {
		for _, r := range n.Received() {
			if r.Cmd != "getheaders" || r.Stop == zero || len(r.Locator) == 0 {
				continue
			}
			ch, isCP := cpHeight[r.Stop]
			if !isCP {
				continue // e.g. the experimental engine's inv-triggered request with the announced hash as stop
			}
			from, known := heights[r.Locator[0]]
			if known && from >= ch {
				return fmt.Errorf("node %d received a getheaders that starts at height %d and stops at the checkpoint of height %d, which is already behind it: sync did not advance to the next checkpoint", i, from, ch)
			}
		}
	}
	return nil
}

func (sc *scenario) tipHash() string {
	t := sc.s.Services.Headers.GetTip()
	if t == nil {
		return ""
	}
	return t.Hash.String()
}

// stored reports whether every block of chain is in the store.
func (sc *scenario) stored(chain []*simnet.Block) (bool, int32) {
	// check from the top: heights are sequential, missing blocks are at the end
	for i := len(chain) - 1; i >= 0; i-- {
		if _, err := sc.s.Services.Headers.GetHeaderByHash(chain[i].Hash.String()); err != nil {
			continue
		}
		return i == len(chain)-1, chain[i].Height
	}
	return len(chain) == 0, 0
}

// runC06 executes the scenario; a bounded wait that expires is not trusted by itself: the same plan is
// re-run twice with a longer bound, and only a plan that fails every time is reported.
func runC06(p *C06Plan) (*stats.Case, error) {
	var firstErr error
	for attempt := 0; attempt < 3; attempt++ {
		q := *p
		if attempt > 0 {
			q.WaitMs = 25000
			if p.WaitMs > q.WaitMs {
				q.WaitMs = p.WaitMs
			}
		}
		c, err := runC06Once(&q)
		if err == nil {
			if attempt > 0 {
				stats.Count("inconclusive_timeouts_passed_on_retry", 1)
			}
			return c, nil
		}
		if strings.HasPrefix(err.Error(), "infra:") {
			return nil, err
		}
		if firstErr == nil {
			firstErr = err
		}
		if !strings.Contains(err.Error(), "did not converge") {
			return nil, err // not a timing matter
		}
	}
	return nil, fmt.Errorf("%w (failed 3 of 3 attempts, the last two with a 25 s bound)", firstErr)
}

func runC06Once(p *C06Plan) (*stats.Case, error) {
	sc, err := buildScenario(p, stack.Options{})
	if sc != nil {
		defer sc.close()
	}
	if err != nil {
		return nil, err
	}
	return execC06(sc)
}

func execC06(sc *scenario) (*stats.Case, error) {
	p := sc.p
	wait := 10 * time.Second
	if p.WaitMs > 0 {
		wait = time.Duration(p.WaitMs) * time.Millisecond
	}
	// expected honest chain grows with the events of honest nodes
	target := append([]*simnet.Block{}, sc.honest...)
	honestReachable := -1
	for i, n := range p.Nodes {
		if n.Branch == -1 && n.Spec.StallAt == 0 && honestReachable == -1 {
			honestReachable = i
		}
	}
	if honestReachable == -1 {
		return nil, fmt.Errorf("infra: plan without a reachable honest node")
	}
	expectTip := func() string { return target[len(target)-1].Hash.String() }
	converged := func() bool {
		if len(target) == 0 {
			return true
		}
		return sc.tipHash() == expectTip()
	}
	report := func(phase string) error {
		ok, top := sc.stored(target)
		tip := sc.s.Services.Headers.GetTip()
		st := ""
		for i, n := range sc.nodes {
			s := n.Stat()
			st += fmt.Sprintf(" node%d{height %d, accepted %d, live %d, closedByService %d, getheaders %d}", i, n.Height(), s.Accepted, s.Live, s.ClosedByRemote, s.GetHeaders)
		}
		return fmt.Errorf("%s: service did not converge within %v: tip height %d, expected honest tip at height %d (all honest headers stored: %v, highest stored %d); engine %s, checkpoints %v disabled=%v;%s",
			phase, wait, tip.Height, len(target), ok, top, p.Engine, p.Checkpoints, p.DisableCP, st)
	}
	// events scheduled during sync
	fired := map[int]bool{}
	reorgs := 0
	fire := func(i int) (last *simnet.Block) {
		e := p.Events[i]
		fired[i] = true
		if e.Node < 0 || e.Node >= len(sc.nodes) {
			return nil
		}
		node, pn := sc.nodes[e.Node], p.Nodes[e.Node]
		if pn.Branch != -1 {
			return nil // only honest nodes grow in this version
		}
		if e.Reorg > 0 && int(node.Height()) == len(target) && len(target) > e.Reorg {
			base := append([]*simnet.Block{}, target[:len(target)-e.Reorg]...)
			ext := sc.u.Extend(base, 1, 50+i, 0x1c00ffff)
			ext = sc.u.Extend(ext, e.Reorg-1, 50+i, 0x1d00ffff)
			for d := time.Now().Add(5 * time.Second); !node.Ready() && time.Now().Before(d); {
				time.Sleep(2 * time.Millisecond)
			}
			node.Reorg(e.Reorg, ext[len(base):], true)
			target = ext
			reorgs++
			return ext[len(ext)-1]
		}
		have := int(node.Height())
		var blocks []*simnet.Block
		// catch up with the known honest chain first, then mine new blocks on top of it
		for len(blocks) < e.K && have+len(blocks) < len(target) {
			blocks = append(blocks, target[have+len(blocks)])
		}
		if n := e.K - len(blocks); n > 0 {
			ext := sc.u.Extend(target, n, 0, 0x1d00ffff)
			blocks = append(blocks, ext[len(target):]...)
			target = ext
		}
		if len(blocks) > 0 {
			// an announcement needs a connection to be announced on (the service reconnects after a drop)
			for d := time.Now().Add(5 * time.Second); !node.Ready() && time.Now().Before(d); {
				time.Sleep(2 * time.Millisecond)
			}
			node.Mine(blocks, true)
			last = blocks[len(blocks)-1]
		}
		return last
	}
	start := time.Now()
	// during-sync triggers are polled from this goroutine's loop below
	unhidden := !p.Takeover
	unhide := func() {
		if !unhidden {
			unhidden = true
			sc.nodes[0].SetServices(uint64(wire.SFNodeNetwork))
			sc.nodes[0].DropAll()
		}
	}
	pollDuring := func() {
		if !unhidden && len(sc.nodes) > 1 && sc.nodes[1].Stat().ScriptCloses > 0 {
			unhide()
		}
		for i, e := range p.Events {
			if !fired[i] && e.When > 0 && e.Node >= 0 && e.Node < len(sc.nodes) && sc.nodes[e.Node].Stat().GetHeaders >= e.When {
				fire(i)
			}
		}
	}
	// phase 1: initial sync until the network is quiet (events scheduled "during sync" fire on the way)
	lastTip, lastTipChange := "", time.Now()
	quiet := func(max time.Duration) {
		deadline := time.Now().Add(max)
		for time.Now().Before(deadline) {
			pollDuring()
			// the service itself must be idle, too: while it works through a large headers message (thousands of
			// inserts) no message travels, but its tip keeps moving
			if tip := sc.tipHash(); tip != lastTip {
				lastTip, lastTipChange = tip, time.Now()
			}
			idle := time.Since(lastTipChange) >= 150*time.Millisecond
			for _, n := range sc.nodes {
				if time.Since(n.Stat().LastRecv) < 150*time.Millisecond {
					idle = false
				}
			}
			// the network counts as quiet only once the service has connected to every node (legacy: DNS seeding,
			// dialling and the handshakes take a while on a loaded machine)
			connected := true
			for _, n := range sc.nodes {
				connected = connected && n.Ready()
			}
			if p.Engine == "exp" {
				connected = true
			}
			if idle && connected && (converged() || time.Since(start) > 400*time.Millisecond) {
				return
			}
			time.Sleep(3 * time.Millisecond)
		}
	}
	quiet(wait)
	if !unhidden {
		unhide() // the sync needed fewer requests than the fault script waits for
		quiet(wait / 2)
	}
	// phase 2: the remaining events, one at a time, each followed by a quiet period
	for i := range p.Events {
		if fired[i] {
			continue
		}
		// events after the sync are sequential: the next one fires when the service has fetched what this one announced
		// (concurrent announcements of nodes with different small reply caps run into the engine's documented rule of not
		// asking a peer again whose reply held nothing new; the protocol's cap is 2000)
		if last := fire(i); last != nil {
			for d := time.Now().Add(wait / 2); time.Now().Before(d); time.Sleep(3 * time.Millisecond) {
				if _, err := sc.s.Services.Headers.GetHeaderByHash(last.Hash.String()); err == nil {
					break
				}
			}
		}
		quiet(wait / 2)
	}
	// phase 3: convergence on the final honest chain
	if !simnet.WaitQuiescent(sc.nodes, converged, 120*time.Millisecond, wait) {
		return nil, report("final state")
	}
	if ok, top := sc.stored(target); !ok {
		return nil, fmt.Errorf("tip is the honest tip but honest headers are missing above height %d", top)
	}
	// the store must be structurally valid (C01 invariants on what was synced)
	rows, _ := sc.s.Headers()
	if err := checkStructure(rows); err != nil {
		return nil, fmt.Errorf("after sync: %w", err)
	}
	if err := checkStops(sc.nodes, sc.cps, sc.heightOf()); err != nil {
		return nil, err
	}
	// wire-level locator checks (C13): every getheaders the nodes received
	roundTrips := 0
	for _, n := range sc.nodes {
		for _, r := range n.Received() {
			if r.Cmd != "getheaders" {
				continue
			}
			roundTrips++
			if len(r.Locator) == 0 {
				return nil, fmt.Errorf("service sent a getheaders with an empty locator")
			}
		}
	}
	cl := map[string]int64{"scenarios": 1, "engine_" + p.Engine: 1, "getheaders_round_trips": int64(roundTrips), "nodes": int64(len(p.Nodes)),
		"with_checkpoints_disabled": b2i(p.DisableCP), "with_events": b2i(len(p.Events) > 0), "with_fork": b2i(len(p.Forks) > 0),
		"initial_" + p.Initial: 1, "checkpoints": int64(len(p.Checkpoints))}
	lagFirst := false
	fault := false
	for _, n := range p.Nodes {
		if n.Lag > 0 {
			lagFirst = true
		}
		if n.Spec.CloseAt > 0 || n.Spec.StallAt > 0 {
			fault = true
		}
	}
	cl["with_fault"] = b2i(fault)
	cl["with_reorg_of_the_only_node"] = b2i(reorgs > 0)
	if p.Takeover {
		cl["takeover"] = 1
		cl["takeover_sync_peer_closed"] = b2i(len(sc.nodes) > 1 && sc.nodes[1].Stat().ScriptCloses > 0)
	}
	cl["with_lagging_node"] = b2i(lagFirst)
	nt := roundTrips >= 2 && (len(p.Events) > 0 || fault || lagFirst || len(p.Forks) > 0 || len(p.Checkpoints) > 1 || (p.Initial != "genesis" && p.Initial != ""))
	return &stats.Case{Sig: stats.Sig(fmt.Sprintf("%+v", *p)), Nontrivial: nt, Classes: cl, Sample: p}, nil
}

func toSourceWire(b *simnet.Block) domains.BlockHeaderSource {
	return domains.BlockHeaderSource{Version: b.H.Version, PrevBlock: b.H.PrevBlock, MerkleRoot: b.H.MerkleRoot, Timestamp: b.H.Timestamp, Bits: b.H.Bits, Nonce: b.H.Nonce}
}

var _ = chainhash.Hash{}
var _ = hist.Genesis
var _ = model.Longest
var _ = os.Getenv

func genC06(t *rapid.T) *C06Plan {
	p := &C06Plan{Engine: rapid.SampledFrom([]string{"legacy", "legacy", "exp"}).Draw(t, "engine")}
	p.HonestLen = rapid.IntRange(5, quickThorough(120, 300)).Draw(t, "len")
	if rapid.IntRange(0, 30).Draw(t, "long") == 0 && stats.Thorough() {
		p.HonestLen = rapid.IntRange(2001, 4500).Draw(t, "lenlong")
		p.WaitMs = 40000 // thousands of inserts per headers message: the bounds scale with the chain
	}
	// checkpoint list
	switch k := rapid.IntRange(0, 3).Draw(t, "cpk"); {
	case k == 0 && p.Engine == "exp":
	case k <= 1:
		p.Checkpoints = []int{rapid.IntRange(1, p.HonestLen).Draw(t, "cp1")}
	case k == 2:
		a := rapid.IntRange(1, p.HonestLen).Draw(t, "cpa")
		b := rapid.IntRange(1, p.HonestLen).Draw(t, "cpb")
		c := rapid.IntRange(1, p.HonestLen).Draw(t, "cpc")
		p.Checkpoints = dedupSorted([]int{a, b, c})
	default:
		p.Checkpoints = dedupSorted([]int{rapid.IntRange(1, p.HonestLen).Draw(t, "cpx"), p.HonestLen})
	}
	if p.Engine == "legacy" {
		p.DisableCP = rapid.IntRange(0, 3).Draw(t, "dcp") == 0
	}
	nn := rapid.IntRange(1, 3).Draw(t, "nn")
	if p.Engine == "exp" {
		nn = 1 // the experimental engine syncs from its single outbound peer (two concurrent peers are C15's subject)
	}
	for i := 0; i < nn; i++ {
		n := C06Node{Branch: -1}
		n.Spec.Pver = rapid.SampledFrom([]uint32{70015, 70016, 70013, 70012, 70011, 70002}).Draw(t, "pver")
		n.Spec.Cap = rapid.SampledFrom([]int{2000, 2000, 1, 2, 7, 50}).Draw(t, "cap")
		if i > 0 && rapid.IntRange(0, 2).Draw(t, "lagk") == 0 {
			// quick tier: a lagging node still holds the last checkpoint, otherwise convergence needs the
			// 3-minute sync-peer rotation timer (thorough tier, TestC06Slow)
			maxLag := p.HonestLen / 2
			if len(p.Checkpoints) > 0 {
				maxLag = p.HonestLen - p.Checkpoints[len(p.Checkpoints)-1]
			}
			if maxLag >= 1 {
				n.Lag = rapid.IntRange(1, maxLag).Draw(t, "lag")
			}
		}
		// node 0 is the honest peer that stays reachable and announces; a node that drops connections does not
		// announce (fetching from a non-sync peer that disconnects resumes only on the 3-minute rotation timer)
		if rapid.IntRange(0, 3).Draw(t, "faultk") == 0 && i > 0 {
			n.Spec.CloseAt = rapid.IntRange(1, 4).Draw(t, "closeat")
			n.Spec.CloseAfter = rapid.Bool().Draw(t, "closeafter")
		}
		if rapid.IntRange(0, 5).Draw(t, "single") == 0 && p.Engine == "legacy" {
			n.Spec.MaxConns = 1
		}
		p.Nodes = append(p.Nodes, n)
	}
	// keep the number of round trips bounded
	for i := range p.Nodes {
		if p.HonestLen/p.Nodes[i].Spec.Cap > 60 {
			p.Nodes[i].Spec.Cap = p.HonestLen/60 + 1
		}
	}
	p.Initial = rapid.SampledFrom([]string{"genesis", "genesis", "prefix", "stalefork", "tallstale"}).Draw(t, "initial")
	p.InitialArg = rapid.IntRange(1, p.HonestLen).Draw(t, "initarg")
	ne := rapid.IntRange(0, 3).Draw(t, "nev")
	for i := 0; i < ne; i++ {
		e := C06Event{Node: rapid.IntRange(0, nn-1).Draw(t, "evn"), K: rapid.IntRange(1, 4).Draw(t, "evk")}
		if p.Nodes[e.Node].Spec.CloseAt > 0 {
			e.Node = 0
		}
		if rapid.IntRange(0, 2).Draw(t, "evw") == 0 {
			e.When = rapid.IntRange(1, 3).Draw(t, "evwhen")
		}
		p.Events = append(p.Events, e)
	}
	lagging := false
	for _, n := range p.Nodes {
		lagging = lagging || n.Lag > 0
	}
	// forked universe (legacy engine): one more node holds a weaker branch that leaves the honest chain above the last
	// checkpoint
	if p.Engine == "legacy" && rapid.IntRange(0, 3).Draw(t, "forkk") == 0 {
		lastCP := p.Checkpoints[len(p.Checkpoints)-1]
		if room := p.HonestLen - lastCP; room >= 2 {
			at := lastCP + rapid.IntRange(0, room-2).Draw(t, "forkat")
			flen := rapid.IntRange(1, p.HonestLen-at-1).Draw(t, "forklen")
			p.Forks = append(p.Forks, ForkSpec{At: at, Len: flen, Bits: 0x1d00ffff})
			fn := C06Node{Branch: 0}
			fn.Spec.Pver = 70015
			p.Nodes = append(p.Nodes, fn)
			// (reply caps stay as drawn: headers of the honest chain that do not outweigh the fork yet must be followed up)
			if rapid.IntRange(0, 2).Draw(t, "forkfirst") == 0 {
				p.Initial = "forkfirst"
			}
			lagging = true // the service may sync the fork first; the honest node announces afterwards
		}
	}
	// take-over class (legacy): the sync peer disconnects mid-sync and another peer must take over - made independent of
	// the engine's random choice of the sync peer by hiding the honest node until the first scripted close
	if p.Engine == "legacy" && len(p.Forks) == 0 && rapid.IntRange(0, 4).Draw(t, "takeover") == 0 {
		p.Takeover = true
		p.Initial, p.Events = "genesis", nil
		n0 := C06Node{Branch: -1}
		n0.Spec.Pver, n0.Spec.Cap = rapid.SampledFrom([]uint32{70015, 70011}).Draw(t, "tpver0"), 2000
		n0.Spec.Services = uint64(wire.SFNodeBloom)
		n1 := C06Node{Branch: -1}
		n1.Spec.Pver = rapid.SampledFrom([]uint32{70015, 70011}).Draw(t, "tpver1")
		n1.Spec.Cap = rapid.SampledFrom([]int{2, 7, 50}).Draw(t, "tcap")
		if p.HonestLen/n1.Spec.Cap > 60 {
			n1.Spec.Cap = p.HonestLen/60 + 1
		}
		n1.Spec.CloseAt = rapid.IntRange(1, 4).Draw(t, "tcloseat")
		n1.Spec.CloseAfter = rapid.Bool().Draw(t, "tcloseafter")
		n1.Spec.FaultConns = rapid.SampledFrom([]int{1, 2, 1000}).Draw(t, "tfaultconns")
		p.Nodes = []C06Node{n0, n1}
		p.Events = []C06Event{{Node: 0, K: 1}}
		return p
	}
	if len(p.Nodes) == 1 && len(p.Forks) == 0 && rapid.IntRange(0, 2).Draw(t, "reorgk") == 0 {
		// the only node abandons its last block(s) for a heavier competing branch after the sync
		d := rapid.IntRange(1, 2).Draw(t, "reorgd")
		p.Events = append(p.Events, C06Event{Node: 0, K: d, Reorg: d})
		if rapid.Bool().Draw(t, "reorgthen") {
			p.Events = append(p.Events, C06Event{Node: 0, K: 1})
		}
	}
	during := false
	for _, e := range p.Events {
		during = during || e.When > 0
	}
	if lagging || (len(p.Nodes) > 1 && during) {
		// the service learns about the rest of the chain from an announcement of the full node (blocks mined by one
		// node during the sync leave the other nodes behind, too)
		p.Events = append(p.Events, C06Event{Node: 0, K: 1})
	}
	return p
}

func dedupSorted(a []int) []int {
	for i := 1; i < len(a); i++ {
		for j := i; j > 0 && a[j-1] > a[j]; j-- {
			a[j-1], a[j] = a[j], a[j-1]
		}
	}
	var out []int
	for i, v := range a {
		if i == 0 || v != a[i-1] {
			out = append(out, v)
		}
	}
	return out
}

// c06Known recognises open findings.
func c06Known(p *C06Plan, err error) string { return "" }

var propC06 = Prop[*C06Plan]{ID: "C06", Name: "TestC06", Gen: genC06, Run: runC06, Known: c06Known}

func TestC06(t *testing.T) {
	if propC06.replayEnv(t) {
		return
	}
	propC06.Check(t)
}

func TestC06Regress(t *testing.T) { propC06.Regress(t) }
