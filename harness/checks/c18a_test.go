//go:build verif

package checks

import (
	"fmt"
	"net"
	"path/filepath"
	"testing"
	"time"

	"github.com/bitcoin-sv/block-headers-service/config"
	"github.com/bitcoin-sv/block-headers-service/transports/p2p"
	"github.com/bitcoin-sv/block-headers-service/transports/p2p/addrmgr"
	"github.com/bitcoin-sv/block-headers-service/transports/p2p/peer"
	"github.com/bitcoin-sv/block-headers-service/verifharness/simnet"
	"github.com/bitcoin-sv/block-headers-service/verifharness/stack"
	"github.com/bitcoin-sv/block-headers-service/verifharness/stats"
	"pgregory.net/rapid"
)

// PBOp is one peer-bookkeeping event.
type PBOp struct {
	Kind    string `json:"kind"` // add | done | ban | advance | flood
	Inbound bool   `json:"inbound"`
	Host    int    `json:"host"` // index into the host universe
	Peer    int    `json:"peer"` // index into the admitted list (mod len)
}

// C18aPlan: host universe size and operations.
type C18aPlan struct {
	Hosts int    `json:"hosts"` // 3 (two share a /16 group) or 40
	BanMs int    `json:"banMs"`
	Ops   []PBOp `json:"ops"`
}

type addrConn struct {
	net.Conn
	remote net.Addr
}

func (a *addrConn) RemoteAddr() net.Addr { return a.remote }

var (
	unixLn   net.Listener
	unixPath string
)

// unixPair returns the two ends of a fresh unix-domain connection.
func unixPair() (net.Conn, net.Conn, error) {
	if unixLn == nil {
		unixPath = filepath.Join(scratchDir("c18sock"), "l.sock")
		ln, err := net.Listen("unix", unixPath)
		if err != nil {
			return nil, nil, err
		}
		unixLn = ln
	}
	a, err := net.Dial("unix", unixPath)
	if err != nil {
		return nil, nil, err
	}
	b, err := unixLn.Accept()
	if err != nil {
		_ = a.Close()
		return nil, nil, err
	}
	return a, b, nil
}

func c18Host(i, n int) string {
	if n <= 3 {
		return []string{"11.1.1.1", "11.1.2.2", "12.1.1.1"}[i%3]
	}
	return fmt.Sprintf("%d.%d.1.1", 20+i%n, 1+(i%n)/3)
}

type c18peer struct {
	p       *peer.Peer
	host    string
	inbound bool
	group   string
}

func runC18a(pl *C18aPlan) (*stats.Case, error) {
	stack.ProcessInit()
	nop := nopLogger()
	cfg := config.GetDefaultAppConfig().P2P
	ban := time.Duration(pl.BanMs) * time.Millisecond
	cfg.BanDuration = ban
	book := p2p.NewVerifPeerBook(cfg, nop)
	node, err := simnet.NewNode(0, simnet.NodeSpec{Pver: 70015}, [32]byte{}, nil)
	if err != nil {
		return nil, fmt.Errorf("infra: %w", err)
	}
	defer node.Close()
	var all []*peer.Peer
	defer func() {
		for _, p := range all {
			p.Disconnect()
		}
	}()
	portSeq := 1000
	mk := func(inbound bool, host string) (*c18peer, error) {
		portSeq++
		// a socket pair over a unix-domain listener (no TCP ports: thousands of short-lived peers per run)
		pa, pb, err := unixPair()
		if err != nil {
			return nil, fmt.Errorf("infra: %w", err)
		}
		var pr *peer.Peer
		if inbound {
			// the remote side opens the handshake
			node.ServeConn(pb, true)
			pr, err = book.NewPeer(true, "", nop)
			if err != nil {
				return nil, fmt.Errorf("infra: %w", err)
			}
			pr.AssociateConnection(&addrConn{Conn: pa, remote: &net.TCPAddr{IP: net.ParseIP(host), Port: portSeq}})
		} else {
			node.ServeConn(pb, false)
			pr, err = book.NewPeer(false, fmt.Sprintf("%s:%d", host, portSeq), nop)
			if err != nil {
				return nil, fmt.Errorf("infra: %w", err)
			}
			pr.AssociateConnection(&addrConn{Conn: pa, remote: &net.TCPAddr{IP: net.ParseIP(host), Port: portSeq}})
		}
		all = append(all, pr)
		deadline := time.Now().Add(3 * time.Second)
		// the server admits a peer from its OnVersion callback, i.e. after version, id and user agent are set
		for (!pr.VersionKnown() || pr.ID() == 0) && time.Now().Before(deadline) {
			time.Sleep(200 * time.Microsecond)
		}
		if !pr.VersionKnown() || pr.ID() == 0 {
			return nil, fmt.Errorf("infra: handshake of a harness peer did not complete (inbound=%v)", inbound)
		}
		return &c18peer{p: pr, host: host, inbound: inbound, group: addrmgr.GroupKey(pr.NA())}, nil
	}
	// model
	var admitted []*c18peer
	perHost := map[string]int{}
	groups := map[string]int{}
	bannedUntil := map[string]time.Time{}
	limitHit, released, banRefusals, banReadmits := false, false, 0, 0
	maxAdmitted := 0
	const band = 15 * time.Millisecond
	add := func(inbound bool, host string, where string) error {
		cp, err := mk(inbound, host)
		if err != nil {
			return err
		}
		t0 := time.Now()
		got := book.Add(cp.p, false)
		t1 := time.Now()
		want, either := true, false
		why := ""
		if end, ok := bannedUntil[host]; ok {
			switch {
			case t1.Before(end.Add(-band)):
				want, why = false, "host banned"
			case t0.After(end.Add(band)):
				delete(bannedUntil, host)
			default:
				either = true
			}
		}
		if want && !either {
			switch {
			case perHost[host] >= config.MaxPeersPerIP:
				want, why = false, "per-host limit"
			case len(admitted) >= config.MaxPeers:
				want, why = false, "total limit"
			}
		}
		if either {
			// inside the tolerance band around the ban expiry: follow the implementation unless a limit decides
			if perHost[host] >= config.MaxPeersPerIP || len(admitted) >= config.MaxPeers {
				want = false
			} else {
				want = got
			}
			if got {
				delete(bannedUntil, host)
			}
		}
		if got != want {
			return fmt.Errorf("%s: add(inbound=%v, host %s) admitted=%v, expected %v (%s; admitted %d, on this host %d, ban %v)", where, inbound, host, got, want, why, len(admitted), perHost[host], pl.BanMs)
		}
		if !got {
			if why == "host banned" {
				banRefusals++
			} else if why != "" {
				limitHit = true
			}
			if cp.p.Connected() {
				return fmt.Errorf("%s: a refused peer (%s) was not disconnected", where, why)
			}
			book.Done(cp.p)
			return nil
		}
		if _, wasBanned := bannedUntil[host]; !wasBanned && why == "" {
			// admitted normally
		}
		admitted = append(admitted, cp)
		if len(admitted) > maxAdmitted {
			maxAdmitted = len(admitted)
		}
		perHost[host]++
		if !inbound {
			groups[cp.group]++
		}
		return nil
	}
	checkCounters := func(where string) error {
		total, ph, gr := book.Counters()
		if total != len(admitted) {
			return fmt.Errorf("%s: server counts %d admitted peers, model %d", where, total, len(admitted))
		}
		if total > config.MaxPeers {
			return fmt.Errorf("%s: %d admitted peers exceed the total limit", where, total)
		}
		for h, n := range ph {
			if n != perHost[h] {
				return fmt.Errorf("%s: per-host counter of %s is %d, %d peers of that host are admitted", where, h, n, perHost[h])
			}
			if n > config.MaxPeersPerIP {
				return fmt.Errorf("%s: %d peers admitted from host %s", where, n, h)
			}
		}
		for g, n := range gr {
			if n != groups[g] {
				return fmt.Errorf("%s: per-group counter of %s is %d, %d outbound peers of that group are admitted", where, g, n, groups[g])
			}
		}
		for h, n := range perHost {
			if n != ph[h] {
				return fmt.Errorf("%s: per-host counter of %s is %d, model %d", where, h, ph[h], n)
			}
		}
		return nil
	}
	done := func(i int) {
		cp := admitted[i]
		book.Done(cp.p)
		cp.p.Disconnect()
		admitted = append(admitted[:i], admitted[i+1:]...)
		perHost[cp.host]--
		if !cp.inbound {
			groups[cp.group]--
		}
		if limitHit {
			released = true
		}
	}
	for i, op := range pl.Ops {
		where := fmt.Sprintf("op %d %+v", i, op)
		host := c18Host(op.Host, pl.Hosts)
		switch op.Kind {
		case "add":
			if err := add(op.Inbound, host, where); err != nil {
				return nil, err
			}
		case "flood":
			for k := 0; k < 8; k++ {
				if err := add(op.Inbound != (k%2 == 0), c18Host(op.Host+k*(pl.Hosts/8), pl.Hosts), where); err != nil {
					return nil, err
				}
			}
		case "done":
			if len(admitted) > 0 {
				done(op.Peer % len(admitted))
			}
		case "ban":
			if len(admitted) > 0 {
				cp := admitted[op.Peer%len(admitted)]
				book.Ban(cp.p)
				bannedUntil[cp.host] = time.Now().Add(ban)
			}
		case "advance":
			time.Sleep(ban + 2*band)
			for h, end := range bannedUntil {
				if time.Now().After(end.Add(band)) {
					_ = h
					banReadmits++
				}
			}
		}
		if err := checkCounters(where); err != nil {
			return nil, err
		}
	}
	// everybody leaves: counters return to zero, and after the bans a fresh peer of every host is admitted
	for len(admitted) > 0 {
		done(0)
	}
	total, ph, gr := book.Counters()
	if total != 0 {
		return nil, fmt.Errorf("after all peers left the server still counts %d peers", total)
	}
	for h, n := range ph {
		if n != 0 {
			return nil, fmt.Errorf("after all peers left the per-host counter of %s is %d", h, n)
		}
	}
	for g, n := range gr {
		if n != 0 {
			return nil, fmt.Errorf("after all peers left the per-group counter of %s is %d", g, n)
		}
	}
	time.Sleep(ban + 2*band)
	for k := 0; k < min(pl.Hosts, 3); k++ {
		bannedUntilCopy := len(bannedUntil)
		_ = bannedUntilCopy
		if err := add(k%2 == 0, c18Host(k, pl.Hosts), "final fresh peer"); err != nil {
			return nil, err
		}
	}
	if len(admitted) != min(pl.Hosts, 3) {
		return nil, fmt.Errorf("after everything left and the bans expired, fresh peers were not admitted (%d of %d)", len(admitted), min(pl.Hosts, 3))
	}
	cl := map[string]int64{"sequences": 1, "total_limit_reached": b2i(maxAdmitted >= config.MaxPeers), "ops": int64(len(pl.Ops)), "peers_created": int64(len(all)), "ban_refusals": int64(banRefusals), "with_limit_hit_and_released": b2i(limitHit && released)}
	return &stats.Case{Sig: stats.Sig(fmt.Sprintf("%+v", *pl)), Nontrivial: limitHit && released, Classes: cl, Sample: pl}, nil
}

var propC18a = Prop[*C18aPlan]{
	ID:   "C18",
	Name: "TestC18PeerBook",
	Gen: func(t *rapid.T) *C18aPlan {
		p := &C18aPlan{Hosts: rapid.SampledFrom([]int{3, 3, 3, 40}).Draw(t, "hosts"), BanMs: 60}
		if p.Hosts == 40 {
			// approach the total limit of 125: 15-17 floods of 8 peers over the 40 hosts first
			for i := 0; i < rapid.IntRange(15, 17).Draw(t, "prefloods"); i++ {
				p.Ops = append(p.Ops, PBOp{Kind: "flood", Inbound: i%2 == 0, Host: i * 3})
			}
		}
		n := rapid.IntRange(5, quickThorough(40, 80)).Draw(t, "nops")
		for i := 0; i < n; i++ {
			op := PBOp{Kind: rapid.SampledFrom([]string{"add", "add", "add", "add", "done", "done", "ban", "advance", "flood"}).Draw(t, "kind"),
				Inbound: rapid.Bool().Draw(t, "inb"), Host: rapid.IntRange(0, 39).Draw(t, "host"), Peer: rapid.IntRange(0, 200).Draw(t, "peer")}
			if p.Hosts == 40 && op.Kind == "add" && rapid.IntRange(0, 2).Draw(t, "fl") == 0 {
				op.Kind = "flood"
			}
			p.Ops = append(p.Ops, op)
		}
		return p
	},
	Run: runC18a,
}

func TestC18PeerBook(t *testing.T) {
	if propC18a.replayEnv(t) {
		return
	}
	propC18a.Check(t)
}
