package checks

import (
	"fmt"
	"testing"
	"time"

	"github.com/bitcoin-sv/block-headers-service/internal/wire"
	"github.com/bitcoin-sv/block-headers-service/verifharness/simnet"
	"github.com/bitcoin-sv/block-headers-service/verifharness/stack"
	"github.com/bitcoin-sv/block-headers-service/verifharness/stats"
	"pgregory.net/rapid"
)

// C06SlowPlan is the timer-dependent class of C06 (legacy engine): the peers the service can sync from at first
// all lag behind, BELOW the last checkpoint; the honest node becomes a sync candidate only after the service has
// synced everything the lagging sync peer has. Below the last checkpoint the manager ignores announcements of
// peers other than the sync peer, so the only way on is the sync-peer rotation of handleCheckSyncPeer (a 30 s
// ticker, three idle ticks): the service must end up on the honest chain within a bound derived from that timer.
type C06SlowPlan struct {
	HonestLen   int    `json:"honestLen"`
	Lag         []int  `json:"lag"` // heights of the lagging nodes' chains (prefixes of the honest chain)
	Checkpoints []int  `json:"checkpoints"`
	Cap         int    `json:"cap"`
	Pver        uint32 `json:"pver"`
	Announce    bool   `json:"announce"` // the honest node announces a new block while the service is stuck on the lagging peer
}

func runC06Slow(p *C06SlowPlan) (*stats.Case, error) {
	plan := &C06Plan{Engine: "legacy", HonestLen: p.HonestLen, Checkpoints: p.Checkpoints, Initial: "genesis"}
	maxLag, hops := 0, map[int]bool{}
	for _, h := range p.Lag {
		nd := C06Node{Branch: -1, Lag: p.HonestLen - h}
		nd.Spec.Pver, nd.Spec.Cap = p.Pver, p.Cap
		nd.Spec.MaxConns = 2 // leaves outbound slots of the service for the honest node
		plan.Nodes = append(plan.Nodes, nd)
		if h > maxLag {
			maxLag = h
		}
		hops[h] = true
	}
	hn := C06Node{Branch: -1}
	hn.Spec.Pver, hn.Spec.Cap = p.Pver, 2000
	hn.Spec.Services = uint64(wire.SFNodeBloom) // no NODE_NETWORK: not a sync candidate yet
	plan.Nodes = append(plan.Nodes, hn)
	sc, err := buildScenario(plan, stack.Options{})
	if sc != nil {
		defer sc.close()
	}
	if err != nil {
		return nil, err
	}
	honestNode := sc.nodes[len(sc.nodes)-1]
	lagging := sc.nodes[:len(sc.nodes)-1]
	target := sc.honest
	tipHeight := func() int { return int(sc.s.Services.Headers.GetTipHeight()) }
	// phase 1: the service syncs what a lagging node has
	reached := func() bool {
		for _, h := range p.Lag {
			if tipHeight() == h {
				return true
			}
		}
		return false
	}
	if !simnet.WaitQuiescent(sc.nodes, reached, 300*time.Millisecond, 25*time.Second) {
		return nil, fmt.Errorf("lagging phase: the service did not reach the height of any lagging node (heights %v) within 25s: tip height %d", p.Lag, tipHeight())
	}
	stuckAt := tipHeight()
	// phase 2: the honest node becomes a sync candidate
	honestNode.SetServices(uint64(wire.SFNodeNetwork))
	honestNode.DropAll()
	if p.Announce {
		ext := sc.u.Extend(target, 1, 0, 0x1d00ffff)
		honestNode.MineWhenReady(ext[len(target):], true, 10*time.Second)
		target = ext
	}
	// one rotation (three idle 30 s ticks, acted upon at the fourth) per distinct lagging height the service may hop over
	bound := time.Duration(150*len(hops)+45) * time.Second
	tipIs := func() bool { return sc.tipHash() == target[len(target)-1].Hash.String() }
	t0 := time.Now()
	for time.Since(t0) < bound && !tipIs() {
		time.Sleep(200 * time.Millisecond)
	}
	took := time.Since(t0)
	if !tipIs() {
		st := ""
		for i, n := range sc.nodes {
			s := n.Stat()
			st += fmt.Sprintf(" node%d{height %d, live %d, getheaders %d}", i, n.Height(), s.Live, s.GetHeaders)
		}
		return nil, fmt.Errorf("service did not converge within %v after the honest node became a sync candidate: tip height %d (it had synced height %d from a lagging node), honest tip at height %d, checkpoints %v (the last one is above every lagging node, so announcements of non-sync peers are ignored and only the sync-peer rotation can move on);%s",
			bound, tipHeight(), stuckAt, len(target), p.Checkpoints, st)
	}
	rows, _ := sc.s.Headers()
	if err := checkStructure(rows); err != nil {
		return nil, err
	}
	served := 0
	for _, n := range lagging {
		if n.Stat().GetHeaders > 0 {
			served++
		}
	}
	cl := map[string]int64{"slow_scenarios": 1, "rotation_needed": b2i(took > 20*time.Second), "lagging_nodes": int64(len(p.Lag)), "with_announcement_while_stuck": b2i(p.Announce)}
	return &stats.Case{Sig: stats.Sig(fmt.Sprintf("%+v", *p)), Nontrivial: served > 0 && stuckAt < p.Checkpoints[len(p.Checkpoints)-1], Classes: cl, Sample: p}, nil
}

var propC06Slow = Prop[*C06SlowPlan]{
	ID:   "C06",
	Name: "TestC06Slow",
	Gen: func(t *rapid.T) *C06SlowPlan {
		p := &C06SlowPlan{HonestLen: rapid.IntRange(12, 80).Draw(t, "len"), Cap: rapid.SampledFrom([]int{2000, 2000, 7, 50}).Draw(t, "cap"),
			Pver: rapid.SampledFrom([]uint32{70015, 70011}).Draw(t, "pver"), Announce: rapid.Bool().Draw(t, "announce")}
		last := rapid.IntRange(6, p.HonestLen).Draw(t, "lastcp")
		h := rapid.IntRange(2, last-1).Draw(t, "lagheight")
		p.Lag = []int{h}
		if rapid.Bool().Draw(t, "two") {
			// a second lagging node at the same height (two different heights would need two rotations)
			p.Lag = append(p.Lag, h)
		}
		if rapid.Bool().Draw(t, "cpbelow") && h >= 2 {
			p.Checkpoints = []int{rapid.IntRange(1, h).Draw(t, "cpa"), last}
		} else {
			p.Checkpoints = []int{last}
		}
		return p
	},
	Run: runC06Slow,
}

func TestC06Slow(t *testing.T) {
	if propC06Slow.replayEnv(t) {
		return
	}
	propC06Slow.Check(t)
}

func TestC06SlowRegress(t *testing.T) { propC06Slow.Regress(t) }
