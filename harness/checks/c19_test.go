package checks

import (
	"fmt"
	"math/big"
	mbits "math/bits"
	"testing"

	"github.com/bitcoin-sv/block-headers-service/domains"
	"github.com/bitcoin-sv/block-headers-service/verifharness/model"
	"github.com/bitcoin-sv/block-headers-service/verifharness/stats"
	"pgregory.net/rapid"
)

var (
	c19Two256 = new(big.Int).Lsh(big.NewInt(1), 256)
	c19Two255 = new(big.Int).Lsh(big.NewInt(1), 255)
	c19One    = big.NewInt(1)
)

// checkBits verifies one bits value against the reference; returns (nontrivial, error).
func checkBits(b uint32) (bool, error) {
	t := domains.CompactToBig(b)
	want := model.Target(b)
	if t.Cmp(want) != 0 {
		return false, fmt.Errorf("CompactToBig(0x%08x) = %s, expected sign x mantissa x 256^(exp-3) = %s", b, t, want)
	}
	w := domains.CalculateWork(b).BigInt()
	if !model.WorkValid(b, w) {
		return false, fmt.Errorf("CalculateWork(0x%08x) = %s is not floor(2^256/(target+1)) for target %s (0 for non-positive targets)", b, w, want)
	}
	exp := b >> 24
	nt := exp < 3 || b&0x00800000 != 0 || b&0x007fffff == 0 || exp >= 34 || w.Sign() == 0 || w.Cmp(c19One) == 0 || w.Cmp(c19Two255) == 0
	return nt, nil
}

type C19Case struct {
	Bits  uint32 `json:"bits"`
	Bits2 uint32 `json:"bits2"` // for monotonicity
	N     uint32 `json:"n"`     // for FastLog2Floor
}

func runC19(c *C19Case) (*stats.Case, error) {
	nt, err := checkBits(c.Bits)
	if err != nil {
		return nil, err
	}
	if _, err := checkBits(c.Bits2); err != nil {
		return nil, err
	}
	t1, t2 := domains.CompactToBig(c.Bits), domains.CompactToBig(c.Bits2)
	w1, w2 := domains.CalculateWork(c.Bits).BigInt(), domains.CalculateWork(c.Bits2).BigInt()
	if t1.Sign() > 0 && t2.Sign() > 0 {
		if t1.Cmp(t2) < 0 && w1.Cmp(w2) < 0 {
			return nil, fmt.Errorf("work not non-increasing in target: bits 0x%08x (target %s, work %s) vs 0x%08x (target %s, work %s)", c.Bits, t1, w1, c.Bits2, t2, w2)
		}
		if t1.Cmp(t2) > 0 && w1.Cmp(w2) > 0 {
			return nil, fmt.Errorf("work not non-increasing in target: bits 0x%08x vs 0x%08x", c.Bits, c.Bits2)
		}
	}
	if c.N >= 1 {
		if got, want := domains.FastLog2Floor(c.N), uint8(mbits.Len32(c.N)-1); got != want {
			return nil, fmt.Errorf("FastLog2Floor(%d) = %d, expected %d", c.N, got, want)
		}
	}
	return &stats.Case{Sig: stats.Sig(c.Bits, c.Bits2, c.N), Nontrivial: nt, Classes: map[string]int64{"random_cases": 1}, Sample: c}, nil
}

var propC19 = Prop[*C19Case]{
	ID:   "C19",
	Name: "TestC19Random",
	Gen: func(t *rapid.T) *C19Case {
		drawBits := func(l string) uint32 {
			if rapid.IntRange(0, 2).Draw(t, l+"k") == 0 {
				return rapid.Uint32().Draw(t, l)
			}
			exp := uint32(rapid.IntRange(0, 255).Draw(t, l+"e"))
			if rapid.IntRange(0, 1).Draw(t, l+"ek") == 0 {
				exp = uint32(rapid.IntRange(0, 36).Draw(t, l+"e2"))
			}
			mant := rapid.Uint32Range(0, 0xffffff).Draw(t, l+"m")
			return exp<<24 | mant
		}
		return &C19Case{Bits: drawBits("b1"), Bits2: drawBits("b2"), N: rapid.Uint32().Draw(t, "n")}
	},
	Run: runC19,
}

func TestC19Random(t *testing.T) {
	if propC19.replayEnv(t) {
		return
	}
	propC19.Check(t)
}

func TestC19Regress(t *testing.T) { propC19.Regress(t) }

func c19Fail(t *testing.T, c *C19Case, err error) {
	path := fmt.Sprintf("%s/viol-TestC19Random-enum-%08x-%08x.json", violDir("C19"), c.Bits, c.N)
	writeReplay(path, "C19", "TestC19Random", c, firstLine(err.Error()))
	stats.AddViolation(stats.Violation{Property: "C19", Replay: path, Message: firstLine(err.Error())})
	t.Errorf("%v", err)
}

// TestC19Lattice (quick): all 256 exponents x both signs x a dense mantissa lattice; all neighbours for monotonicity;
// FastLog2Floor on all 2^k, 2^k+-1 and a stride through the domain.
func TestC19Lattice(t *testing.T) {
	stats.Setup("C19", "TestC19Lattice")
	var mants []uint32
	add := func(m uint32) {
		if m <= 0x7fffff {
			mants = append(mants, m)
		}
	}
	add(0)
	for k := 0; k < 23; k++ {
		add(1 << k)
		add(1<<k + 1)
		add(1<<k - 1)
	}
	add(0x7fffff)
	add(0x00ffff)
	add(0x7ffffe)
	for i := uint32(0); i < 1024; i++ {
		add((i*2654435761 + 12345) & 0x7fffff)
	}
	shard, nsh := stats.Shard(), stats.NShards()
	var evals, nts int64
	for exp := uint32(0); exp < 256; exp++ {
		if int(exp)%nsh != shard {
			continue
		}
		for sign := uint32(0); sign < 2; sign++ {
			var prevT, prevW *big.Int
			// mantissas ascending for the neighbour check
			sorted := append([]uint32{}, mants...)
			sortU32(sorted)
			for _, m := range sorted {
				b := exp<<24 | sign<<23 | m
				nt, err := checkBits(b)
				if err != nil {
					c19Fail(t, &C19Case{Bits: b, Bits2: b}, err)
					return
				}
				evals++
				if nt {
					nts++
				}
				tt, w := domains.CompactToBig(b), domains.CalculateWork(b).BigInt()
				if prevT != nil && tt.Sign() > 0 && prevT.Sign() > 0 && prevT.Cmp(tt) < 0 && prevW.Cmp(w) < 0 {
					c19Fail(t, &C19Case{Bits: b, Bits2: b}, fmt.Errorf("work increases with target at bits 0x%08x", b))
					return
				}
				prevT, prevW = tt, w
			}
		}
	}
	if shard == 0 {
		for k := 0; k < 32; k++ {
			for _, n := range []uint32{1 << k, 1<<k + 1, 1<<k - 1} {
				if n == 0 {
					continue
				}
				if got, want := domains.FastLog2Floor(n), uint8(mbits.Len32(n)-1); got != want {
					c19Fail(t, &C19Case{N: n}, fmt.Errorf("FastLog2Floor(%d) = %d, expected %d", n, got, want))
					return
				}
				evals++
				nts++
			}
		}
	}
	for n := uint32(1 + shard); n > uint32(shard); n += uint32(4099 * nsh) { // stride through the 32-bit domain
		if got, want := domains.FastLog2Floor(n), uint8(mbits.Len32(n)-1); got != want {
			c19Fail(t, &C19Case{N: n}, fmt.Errorf("FastLog2Floor(%d) = %d, expected %d", n, got, want))
			return
		}
		evals++
		if n > 0xffffffff-uint32(4099*nsh) {
			break
		}
	}
	stats.CountEnum(evals, nts)
	stats.AddSample(map[string]any{"lattice": "256 exponents x 2 signs x mantissa lattice", "mantissas": len(mants), "first": fmt.Sprintf("0x%08x", mants[1])})
}

func sortU32(a []uint32) {
	for i := 1; i < len(a); i++ {
		for j := i; j > 0 && a[j-1] > a[j]; j-- {
			a[j-1], a[j] = a[j], a[j-1]
		}
	}
}

// TestC19Exhaustive (thorough): all 2^32 bits values and all 2^32 n, partitioned by shard.
func TestC19Exhaustive(t *testing.T) {
	stats.Setup("C19", "TestC19Exhaustive")
	shard, nsh := uint32(stats.Shard()), uint32(stats.NShards())
	var evals, nts int64
	// bits: partition by exponent byte
	for exp := uint32(0); exp < 256; exp++ {
		if exp%nsh != shard {
			continue
		}
		// reference target maintained incrementally: t(m) = m * 256^(exp-3) for exp>=3 (addition), m >> 8(3-exp) else
		factor := new(big.Int)
		if exp >= 3 {
			factor.Exp(big.NewInt(256), big.NewInt(int64(exp-3)), nil)
		}
		for sign := uint32(0); sign < 2; sign++ {
			ref := new(big.Int)
			for m := uint32(0); m <= 0x7fffff; m++ {
				b := exp<<24 | sign<<23 | m
				if exp >= 3 {
					if m > 0 {
						ref.Add(ref, factor)
					}
				} else {
					ref.SetUint64(uint64(m) / (uint64(1) << (8 * (3 - exp))))
				}
				want := ref
				if sign == 1 {
					want = new(big.Int).Neg(ref)
				}
				got := domains.CompactToBig(b)
				if got.Cmp(want) != 0 {
					c19Fail(t, &C19Case{Bits: b, Bits2: b}, fmt.Errorf("CompactToBig(0x%08x) = %s, expected %s", b, got, want))
					return
				}
				w := domains.CalculateWork(b).BigInt()
				ok := false
				if want.Sign() <= 0 {
					ok = w.Sign() == 0
				} else if w.Sign() >= 0 {
					d := new(big.Int).Add(want, c19One)
					lo := new(big.Int).Mul(w, d)
					ok = lo.Cmp(c19Two256) <= 0 && lo.Add(lo, d).Cmp(c19Two256) > 0
				}
				if !ok {
					c19Fail(t, &C19Case{Bits: b, Bits2: b}, fmt.Errorf("CalculateWork(0x%08x) = %s is not floor(2^256/(target+1)) for target %s", b, w, want))
					return
				}
				evals++
				if exp < 3 || sign == 1 || m == 0 || exp >= 34 || w.Sign() == 0 {
					nts++
				}
			}
		}
	}
	// FastLog2Floor: all n in this shard's residue class
	for n := uint64(shard); n <= 0xffffffff; n += uint64(nsh) {
		if n == 0 {
			continue
		}
		v := uint32(n)
		if got, want := domains.FastLog2Floor(v), uint8(mbits.Len32(v)-1); got != want {
			c19Fail(t, &C19Case{N: v}, fmt.Errorf("FastLog2Floor(%d) = %d, expected %d", v, got, want))
			return
		}
		evals++
	}
	stats.CountEnum(evals, nts)
	stats.SetExhaustive()
	stats.AddSample(map[string]any{"enumeration": "all 2^32 bits values (by exponent byte) and all 2^32 n", "shard": shard, "of": nsh})
}
