package checks

import (
	"bytes"
	"fmt"
	"github.com/bitcoin-sv/block-headers-service/service"
	"path/filepath"
	"runtime"
	"sort"
	"strconv"
	"strings"
	"sync"
	"testing"
	"time"

	"github.com/bitcoin-sv/block-headers-service/repository"
	"github.com/bitcoin-sv/block-headers-service/verifharness/hist"
	"github.com/bitcoin-sv/block-headers-service/verifharness/interpose"
	"github.com/bitcoin-sv/block-headers-service/verifharness/model"
	"github.com/bitcoin-sv/block-headers-service/verifharness/stack"
	"github.com/bitcoin-sv/block-headers-service/verifharness/stats"
	"pgregory.net/rapid"
)

// C15Plan: a tree of headers split over concurrent submitters, readers, and a schedule.
type C15Plan struct {
	Hist     *hist.Plan `json:"hist"`     // specs only (delivery ignored)
	Owner    []int      `json:"owner"`    // spec i is submitted by submitter Owner[i] (in spec order)
	Subs     int        `json:"subs"`     // 2-3 submitters
	Readers  int        `json:"readers"`  // 0-2 readers
	Reads    int        `json:"reads"`    // reads per reader
	Schedule []int      `json:"schedule"` // which parked goroutine runs next (mod number parked); cycled
	// Both: spec indices that EVERY submitter delivers (the same header relayed by several peers at once): exactly one
	// delivery is answered "stored", the others "duplicate", and every notification channel sees exactly one ADD event
	Both []int `json:"both,omitempty"`
}

func goid() int64 {
	var buf [64]byte
	n := runtime.Stack(buf[:], false)
	f := bytes.Fields(buf[:n])
	id, _ := strconv.ParseInt(string(f[1]), 10, 64)
	return id
}

// coop is the cooperative scheduler placed at the repository interface.
type coop struct {
	mu      sync.Mutex
	ids     map[int64]int // goroutine id -> worker
	resume  []chan struct{}
	events  chan coopEvent
	enabled bool
	parks   []int // yields since the worker's current Add began
	subs    int   // workers below this index are submitters, the others readers
}

type coopEvent struct {
	worker int
	kind   string // park | done
	method string
}

func (c *coop) yield(method string) {
	c.mu.Lock()
	w, ok := c.ids[goid()]
	en := c.enabled
	c.mu.Unlock()
	if !ok || !en {
		return
	}
	if w >= c.subs && method != "reader" {
		// a reader's own repository calls are not scheduling points: one read (snapshot, GetTip, snapshot) is one step,
		// taken while every submitter is parked or blocked, so what it sees is the store "at that moment"
		return
	}
	c.mu.Lock()
	c.parks[w]++
	c.mu.Unlock()
	c.events <- coopEvent{worker: w, kind: "park", method: method}
	<-c.resume[w]
}

var c15Dir string

func runC15(p *C15Plan) (*stats.Case, error) {
	if c15Dir == "" {
		c15Dir = scratchDir("c15")
	}
	stack.RemoveDB(filepath.Join(c15Dir, "bhs.db"))
	nw := p.Subs + p.Readers
	co := &coop{ids: map[int64]int{}, resume: make([]chan struct{}, nw), events: make(chan coopEvent, 64), parks: make([]int, nw), subs: p.Subs}
	for i := range co.resume {
		co.resume[i] = make(chan struct{}, 1)
	}
	events := &recChan{mode: "ok"}
	s, err := stack.New(stack.Options{Dir: c15Dir, WrapHeaders: func(h repository.Headers) repository.Headers {
		ip := interpose.Wrap(h)
		ip.Yield = co.yield
		return ip
	}, WrapServices: func(sv *service.Services) { sv.Notifier.AddChannel(events) }})
	if err != nil {
		return nil, fmt.Errorf("infra: %w", err)
	}
	defer s.Close()
	hs := p.Hist.Build()
	lists := make([][]int, p.Subs)
	for i := range hs {
		o := 0
		if i < len(p.Owner) {
			o = ((p.Owner[i] % p.Subs) + p.Subs) % p.Subs
		}
		lists[o] = append(lists[o], i)
		for _, b := range p.Both {
			if ((b%len(hs))+len(hs))%len(hs) == i {
				for o2 := range lists {
					if o2 != o {
						lists[o2] = append(lists[o2], i)
					}
				}
				break
			}
		}
	}
	var failMu sync.Mutex
	var failure error
	setFail := func(e error) {
		failMu.Lock()
		if failure == nil {
			failure = e
		}
		failMu.Unlock()
	}
	type addRes struct {
		spec int
		cls  string
	}
	var resMu sync.Mutex
	var results []addRes
	overlap := false
	interleaved := false
	blockedSeen := false
	start := make(chan struct{})
	var wg sync.WaitGroup
	worker := func(w int, body func()) {
		wg.Add(1)
		go func() {
			defer wg.Done()
			defer func() {
				if r := recover(); r != nil {
					setFail(fmt.Errorf("panic in worker %d: %v\n%s", w, r, trimStack(debugStack())))
				}
				co.events <- coopEvent{worker: w, kind: "done"}
			}()
			co.mu.Lock()
			co.ids[goid()] = w
			co.mu.Unlock()
			<-start
			body()
		}()
	}
	for i := 0; i < p.Subs; i++ {
		i := i
		worker(i, func() {
			for _, spec := range lists[i] {
				co.mu.Lock()
				co.parks[i] = 0
				co.mu.Unlock()
				bh, err := s.Services.Chains.Add(hist.ToSource(hs[spec]))
				cls := "error"
				switch {
				case err == nil && bh != nil:
					cls = "stored"
				case err != nil && err.Error() == "HeaderAlreadyExists":
					cls = "duplicate"
				}
				if cls == "error" {
					setFail(fmt.Errorf("submitter %d: Add(spec %d) failed: %v", i, spec, err))
				}
				resMu.Lock()
				results = append(results, addRes{spec, cls})
				resMu.Unlock()
			}
		})
	}
	for r := 0; r < p.Readers; r++ {
		w := p.Subs + r
		worker(w, func() {
			for k := 0; k < p.Reads; k++ {
				co.yield("reader") // the schedule decides at which moment of the submitters' progress this read happens
				pre, _ := s.Headers()
				tip := s.Services.Headers.GetTip()
				if tip == nil {
					setFail(fmt.Errorf("reader: GetTip returned nil"))
					return
				}
				// still this goroutine's turn: the snapshot is the store "at that moment" - unless a submitter that was
				// waiting for the Add lock woke up in between, which shows as a difference between the two snapshots
				rows, err := s.Headers()
				if err != nil {
					setFail(fmt.Errorf("infra: %w", err))
					return
				}
				if tableState(pre) != tableState(rows) {
					stats.Count("reader_checks_skipped_store_changed_concurrently", 1)
					continue
				}
				st := ""
				for _, row := range rows {
					if row.Hash == tip.Hash.String() {
						st = row.State
					}
				}
				if st != model.Longest {
					setFail(fmt.Errorf("reader observed tip %s (height %d) whose stored state is %q at that moment", tip.Hash.String(), tip.Height, st))
					return
				}
				if err := checkStructure(rows); err != nil {
					setFail(fmt.Errorf("reader observed a tip while the store was not a structurally valid chain: %w", err))
					return
				}
				_, _ = s.Services.Headers.GetHeadersByHeight(int(tip.Height), 1)
			}
		})
	}
	// controller
	co.mu.Lock()
	co.enabled = true
	co.mu.Unlock()
	close(start)
	state := make([]string, nw) // running | parked | blocked | done
	inAdd := make([]string, nw)
	for i := range state {
		state[i] = "running"
	}
	live := nw
	si := 0
	steps := 0
	apply := func(e coopEvent) {
		if e.kind == "done" {
			state[e.worker] = "done"
			live--
		} else {
			state[e.worker] = "parked"
			inAdd[e.worker] = e.method
		}
	}
	waitEvent := func(d time.Duration) bool {
		select {
		case e := <-co.events:
			apply(e)
			return true
		case <-time.After(d):
			return false
		}
	}
	midAdd := func(w int) bool {
		co.mu.Lock()
		defer co.mu.Unlock()
		return co.parks[w] >= 2
	}
	deadline := time.Now().Add(60 * time.Second)
	for live > 0 {
		if time.Now().After(deadline) {
			return nil, fmt.Errorf("infra: scheduler did not finish in 60 s (states %v)", state)
		}
		running := 0
		var parked []int
		for i, st := range state {
			switch st {
			case "running":
				running++
			case "parked":
				parked = append(parked, i)
			}
		}
		if running > 0 {
			if !waitEvent(25 * time.Millisecond) {
				// a running worker neither parked nor finished: it waits for a lock held by a parked one
				for i, st := range state {
					if st == "running" {
						state[i] = "blocked"
						blockedSeen = true
					}
				}
			}
			continue
		}
		if len(parked) == 0 {
			// only blocked workers: wait for one of them to get its lock
			if !waitEvent(2 * time.Second) {
				return nil, fmt.Errorf("deadlock: all remaining workers are blocked (states %v)", state)
			}
			continue
		}
		// two submitters parked inside Add between existence check and insert = overlapping Adds
		mid := 0
		for _, w := range parked {
			if w < p.Subs && midAdd(w) {
				mid++
			}
		}
		if mid >= 2 {
			overlap = true
		}
		pick := parked[0]
		if len(p.Schedule) > 0 {
			c := p.Schedule[si%len(p.Schedule)]
			si++
			pick = parked[((c%len(parked))+len(parked))%len(parked)]
		}
		// another goroutine is released while a submitter is parked in the middle of an Add
		for _, w := range parked {
			if w != pick && w < p.Subs && midAdd(w) {
				interleaved = true
			}
		}
		state[pick] = "running"
		steps++
		co.resume[pick] <- struct{}{}
		// blocked workers may wake up when the picked one releases a lock; drain without waiting
		for drained := true; drained; {
			select {
			case e := <-co.events:
				apply(e)
			default:
				drained = false
			}
		}
	}
	wg.Wait()
	if failure != nil {
		return nil, failure
	}
	// final state: equals some sequential order (all orders for <= 6 headers), else necessary conditions
	rows, err := s.Headers()
	if err != nil {
		return nil, fmt.Errorf("infra: %w", err)
	}
	if err := checkStructure(rows); err != nil {
		return nil, fmt.Errorf("final store: %w", err)
	}
	final := map[string]string{}
	for _, r := range rows {
		final[r.Hash] = r.State
	}
	if len(final) != len(uniqueHashes(hs))+1 {
		return nil, fmt.Errorf("final store has %d headers, %d distinct headers were submitted", len(final)-1, len(uniqueHashes(hs)))
	}
	// every header was answered "stored" exactly once (further deliveries: "duplicate") and announced exactly once
	storedBy := map[int]int{}
	resMu.Lock()
	for _, r := range results {
		if r.cls == "stored" {
			storedBy[r.spec]++
		}
	}
	resMu.Unlock()
	byHash := map[[32]byte]int{}
	for i, n := range storedBy {
		byHash[hs[i].Hash()] += n
	}
	for h, n := range byHash {
		if n != 1 {
			return nil, fmt.Errorf("header %s was answered as newly stored %d times (deliveries of the same header by several submitters: exactly one stores it, the others are duplicates)", model.HashStr(h), n)
		}
	}
	for d := time.Now().Add(2 * time.Second); time.Now().Before(d); time.Sleep(2 * time.Millisecond) {
		events.mu.Lock()
		n := len(events.done)
		events.mu.Unlock()
		if n >= len(byHash) {
			break
		}
	}
	time.Sleep(5 * time.Millisecond)
	perHash := map[string]int{}
	events.mu.Lock()
	for _, e := range events.done {
		perHash[e.Hash]++
	}
	events.mu.Unlock()
	for h := range byHash {
		if c := perHash[model.HashStr(h)]; c != 1 {
			return nil, fmt.Errorf("the notification channel received %d ADD events for stored header %s (expected exactly one)", c, model.HashStr(h))
		}
	}
	matched := false
	if len(hs) <= 6 {
		for _, perm := range permutations(len(hs)) {
			t := model.NewTree(hist.Genesis())
			for _, i := range perm {
				t.Submit(hs[i])
			}
			ok := true
			for _, n := range t.Order {
				if final[n.HashStr] != n.Label {
					ok = false
					break
				}
			}
			if ok {
				matched = true
				break
			}
		}
		if !matched {
			var d []string
			for h, st := range final {
				d = append(d, h[:10]+"="+st)
			}
			sort.Strings(d)
			return nil, fmt.Errorf("final store equals no sequential ingestion order of the %d headers: %s", len(hs), strings.Join(d, " "))
		}
	} else {
		// necessary conditions: the tip has the greatest cumulative work among connected headers under some tie order
		best := ""
		var bestW string
		for _, r := range rows {
			if r.State != model.Orphan && (bestW == "" || len(r.CumWork) > len(bestW) || (len(r.CumWork) == len(bestW) && r.CumWork > bestW)) {
				bestW, best = r.CumWork, r.Hash
			}
		}
		tip := s.Services.Headers.GetTip()
		for _, r := range rows {
			if r.Hash == tip.Hash.String() && r.CumWork != bestW {
				return nil, fmt.Errorf("final tip %s has cumulative work %s, header %s has %s", r.Hash, r.CumWork, best, bestW)
			}
		}
	}
	cl := map[string]int64{"scenarios": 1, "schedule_steps": int64(steps), "with_overlapping_adds": b2i(overlap), "with_goroutine_released_inside_an_add": b2i(interleaved), "with_submitter_blocked_on_lock": b2i(blockedSeen), "with_readers": b2i(p.Readers > 0), "with_header_delivered_by_every_submitter": b2i(len(p.Both) > 0), "small_all_orders_checked": b2i(len(hs) <= 6)}
	return &stats.Case{Sig: stats.Sig(planSig(p.Hist), fmt.Sprint(p.Owner), p.Subs, p.Readers, fmt.Sprint(p.Schedule), fmt.Sprint(p.Both)), Nontrivial: overlap || interleaved || blockedSeen, Classes: cl, Sample: p}, nil
}

func uniqueHashes(hs []model.Header) map[[32]byte]bool {
	m := map[[32]byte]bool{}
	for _, h := range hs {
		m[h.Hash()] = true
	}
	return m
}

func debugStack() []byte {
	buf := make([]byte, 1<<14)
	return buf[:runtime.Stack(buf, false)]
}

func genC15(t *rapid.T) *C15Plan {
	p := &C15Plan{Subs: rapid.IntRange(2, 3).Draw(t, "subs"), Readers: rapid.IntRange(0, 2).Draw(t, "readers"), Reads: rapid.IntRange(1, 8).Draw(t, "reads")}
	p.Hist = hist.Gen(t, hist.GenOpts{MinSpecs: 2, MaxSpecs: quickThorough(7, 12), NoForbidden: true, NoUnknown: true, NoDuplicates: true, InOrder: true})
	for range p.Hist.Specs {
		p.Owner = append(p.Owner, rapid.IntRange(0, p.Subs-1).Draw(t, "owner"))
	}
	if rapid.IntRange(0, 2).Draw(t, "bothk") == 0 {
		nb := rapid.IntRange(1, 3).Draw(t, "nboth")
		for i := 0; i < nb; i++ {
			p.Both = append(p.Both, rapid.IntRange(0, len(p.Hist.Specs)-1).Draw(t, "both"))
		}
	}
	n := rapid.IntRange(4, 60).Draw(t, "nsched")
	for i := 0; i < n; i++ {
		p.Schedule = append(p.Schedule, rapid.IntRange(0, 5).Draw(t, "sch"))
	}
	return p
}

// c15Known recognises open findings of C15a (none).
func c15Known(p *C15Plan, err error) string { return "" }

var propC15 = Prop[*C15Plan]{ID: "C15", Name: "TestC15Sched", Gen: genC15, Run: runC15, Known: c15Known}

func TestC15Sched(t *testing.T) {
	if propC15.replayEnv(t) {
		return
	}
	propC15.Check(t)
}

func TestC15Regress(t *testing.T) { propC15.Regress(t) }

// TestC15Enum enumerates, for small scenarios (2 submitters, 1-2 headers each, no readers / one reader), EVERY
// schedule choice vector of a fixed length: all interleavings of the submitters at repository-call granularity.
func TestC15Enum(t *testing.T) {
	stats.Setup("C15", "TestC15Enum")
	type tree struct {
		specs []hist.Spec
		owner []int
	}
	sp := func(parent int, bits uint32, i int) hist.Spec {
		return hist.Spec{Parent: parent, Bits: bits, Version: 1, Nonce: uint32(i), Time: 1600000000 + uint32(i), Merkle: uint64(i + 1)}
	}
	trees := []tree{
		{[]hist.Spec{sp(-1, 0x1d00ffff, 0), sp(-1, 0x1c00ffff, 1)}, []int{0, 1}},                                                   // two competing children of genesis
		{[]hist.Spec{sp(-1, 0x1d00ffff, 0), sp(0, 0x1d00ffff, 1)}, []int{0, 1}},                                                    // parent and child in different submitters
		{[]hist.Spec{sp(-1, 0x1d00ffff, 0), sp(-1, 0x1d00ffff, 1), sp(0, 0x1d00ffff, 2), sp(1, 0x1c00ffff, 3)}, []int{0, 1, 0, 1}}, // two branches racing
		{[]hist.Spec{sp(-1, 0x1d00ffff, 0), sp(0, 0x1d00ffff, 1), sp(-1, 0x1c00ffff, 2), sp(2, 0x1d00ffff, 3)}, []int{0, 0, 1, 1}}, // reorg while the other extends
	}
	both := map[int][]int{4: {0}, 5: {0, 1}}
	trees = append(trees,
		tree{[]hist.Spec{sp(-1, 0x1d00ffff, 0), sp(0, 0x1d00ffff, 1)}, []int{0, 1}},  // (4) the first header is delivered by both submitters
		tree{[]hist.Spec{sp(-1, 0x1d00ffff, 0), sp(-1, 0x1c00ffff, 1)}, []int{0, 1}}, // (5) two competing headers, each delivered by both
	)
	const L = 9
	shard, nsh := stats.Shard(), stats.NShards()
	count := 0
	prop := propC15
	prop.Name = "TestC15Enum"
	for ti, tr := range trees {
		for readers := 0; readers < 2; readers++ {
			for v := 0; v < 1<<L; v++ {
				count++
				if count%nsh != shard {
					continue
				}
				p := &C15Plan{Hist: &hist.Plan{Specs: tr.specs}, Owner: tr.owner, Subs: 2, Readers: readers, Reads: 4, Both: both[ti]}
				for b := 0; b < L; b++ {
					p.Schedule = append(p.Schedule, (v>>b)&1)
				}
				if !prop.CheckOne(t, p, fmt.Sprintf("tree%d-r%d-%d", ti, readers, v)) {
					return
				}
			}
		}
	}
	if shard == 0 {
		stats.Count("enumerated_schedules", int64(count))
	}
	stats.SetExhaustive()
}
