package checks

import (
	"encoding/json"
	"fmt"
	"path/filepath"
	"testing"

	"github.com/bitcoin-sv/block-headers-service/verifharness/hist"
	"github.com/bitcoin-sv/block-headers-service/verifharness/model"
	"github.com/bitcoin-sv/block-headers-service/verifharness/stack"
	"github.com/bitcoin-sv/block-headers-service/verifharness/stats"
	"pgregory.net/rapid"
)

// C03Plan = history with boundary-valued fields and restarts at some steps.
type C03Plan struct {
	Hist     *hist.Plan `json:"hist"`
	Restarts []int      `json:"restarts"` // delivery positions after which the stack is reopened
}

type headerResp struct {
	Hash      string `json:"hash"`
	Version   int32  `json:"version"`
	Prev      string `json:"prevBlockHash"`
	Merkle    string `json:"merkleRoot"`
	Timestamp uint32 `json:"creationTimestamp"`
	Bits      uint32 `json:"difficultyTarget"`
	Nonce     uint32 `json:"nonce"`
	Work      string `json:"work"`
}

type stateResp struct {
	Header    headerResp `json:"header"`
	State     string     `json:"state"`
	ChainWork string     `json:"chainWork"`
	Height    int32      `json:"height"`
}

func checkHeaderResp(h headerResp, n *model.Node) error {
	bad := func(f string, got, want any) error {
		return fmt.Errorf("HTTP header %s: field %s = %v, expected %v", n.HashStr, f, got, want)
	}
	switch {
	case h.Hash != n.HashStr:
		return bad("hash", h.Hash, n.HashStr)
	case h.Version != n.H.Version:
		return bad("version", h.Version, n.H.Version)
	case h.Prev != model.HashStr(n.H.Prev):
		return bad("prevBlockHash", h.Prev, model.HashStr(n.H.Prev))
	case h.Merkle != model.HashStr(n.H.Merkle):
		return bad("merkleRoot", h.Merkle, model.HashStr(n.H.Merkle))
	case h.Timestamp != n.H.Timestamp:
		return bad("creationTimestamp", h.Timestamp, n.H.Timestamp)
	case h.Bits != n.H.Bits:
		return bad("difficultyTarget", h.Bits, n.H.Bits)
	case h.Nonce != n.H.Nonce:
		return bad("nonce", h.Nonce, n.H.Nonce)
	case h.Work != n.Work.String():
		return bad("work", h.Work, n.Work)
	}
	return nil
}

// checkServiceViews compares GetHeaderByHash and the two HTTP views of one node.
func checkServiceViews(r *hist.Rig, n *model.Node) error {
	bh, err := r.S.Services.Headers.GetHeaderByHash(n.HashStr)
	if err != nil || bh == nil {
		return fmt.Errorf("GetHeaderByHash(%s): %v", n.HashStr, err)
	}
	if bh.Hash.String() != n.HashStr || bh.Height != n.Height || bh.Version != n.H.Version || [32]byte(bh.MerkleRoot) != n.H.Merkle ||
		[32]byte(bh.PreviousBlock) != n.H.Prev || bh.Bits != n.H.Bits || bh.Nonce != n.H.Nonce || bh.Timestamp.Unix() != int64(n.H.Timestamp) ||
		bh.CumulatedWork.Cmp(n.CumWork) != 0 || !model.WorkValid(n.H.Bits, bh.Chainwork) || string(bh.State) != n.Label {
		return fmt.Errorf("GetHeaderByHash(%s) = %+v, model height %d ts %d cum %s label %s", n.HashStr, bh, n.Height, n.H.Timestamp, n.CumWork, n.Label)
	}
	resp := r.S.Get("/api/v1/chain/header/" + n.HashStr)
	var hr headerResp
	if resp.Code != 200 || json.Unmarshal(resp.Body, &hr) != nil {
		return fmt.Errorf("GET header/%s: status %d body %s", n.HashStr, resp.Code, resp.Body)
	}
	if err := checkHeaderResp(hr, n); err != nil {
		return err
	}
	resp = r.S.Get("/api/v1/chain/header/state/" + n.HashStr)
	var sr stateResp
	if resp.Code != 200 || json.Unmarshal(resp.Body, &sr) != nil {
		return fmt.Errorf("GET header/state/%s: status %d body %s", n.HashStr, resp.Code, resp.Body)
	}
	if err := checkHeaderResp(sr.Header, n); err != nil {
		return err
	}
	if sr.State != n.Label || sr.Height != n.Height || sr.ChainWork != n.CumWork.String() {
		return fmt.Errorf("GET header/state/%s = state %s height %d chainWork %s; model %s %d %s", n.HashStr, sr.State, sr.Height, sr.ChainWork, n.Label, n.Height, n.CumWork)
	}
	return nil
}

var c03Dir string

func runC03(p *C03Plan) (*stats.Case, error) {
	if c03Dir == "" {
		c03Dir = scratchDir("c03")
	}
	stack.RemoveDB(filepath.Join(c03Dir, "bhs.db"))
	r, err := hist.NewRig(c03Dir, p.Hist, stack.Options{})
	if err != nil {
		return nil, fmt.Errorf("infra: %w", err)
	}
	defer r.Close()
	restartAt := map[int]bool{}
	for _, x := range p.Restarts {
		restartAt[x] = true
	}
	prev := map[string]string{} // hash -> immutable key
	snapshot := func(where string) error {
		rows, err := r.S.Headers()
		if err != nil {
			return fmt.Errorf("infra: %w", err)
		}
		cur := map[string]string{}
		for _, row := range rows {
			cur[row.Hash] = row.Key()
		}
		for h, k := range prev {
			ck, ok := cur[h]
			if !ok {
				return fmt.Errorf("%s: stored header %s disappeared", where, h)
			}
			if ck != k {
				return fmt.Errorf("%s: stored header %s was rewritten:\n  before %s\n  after  %s", where, h, k, ck)
			}
		}
		prev = cur
		return nil
	}
	boundary, restartsAfterStore, dups := 0, 0, 0
	for step, idx := range p.Hist.Delivery {
		if idx < 0 || idx >= len(r.Headers) {
			continue
		}
		out, res, err := r.Deliver(idx)
		if err != nil {
			return nil, fmt.Errorf("step %d: %w", step, err)
		}
		if out == model.Duplicate {
			dups++
		}
		if out == model.Stored {
			n := r.T.Nodes[r.Hashes[idx]]
			// Add's return value describes the stored header
			if res.Header.Hash.String() != n.HashStr || res.Header.Height != n.Height || res.Header.CumulatedWork.Cmp(n.CumWork) != 0 || string(res.Header.State) != n.Label {
				return nil, fmt.Errorf("step %d: Add returned hash %s height %d cum %s state %s; model %s %d %s %s", step, res.Header.Hash.String(), res.Header.Height, res.Header.CumulatedWork, res.Header.State, n.HashStr, n.Height, n.CumWork, n.Label)
			}
		}
		if err := r.CompareTable(true); err != nil {
			return nil, fmt.Errorf("after step %d: %w", step, err)
		}
		if err := snapshot(fmt.Sprintf("after step %d", step)); err != nil {
			return nil, err
		}
		if restartAt[step] {
			if err := r.S.Reopen(); err != nil {
				return nil, fmt.Errorf("restart after step %d failed: %v", step, err)
			}
			if err := r.CompareTable(true); err != nil {
				return nil, fmt.Errorf("after restart at step %d: %w", step, err)
			}
			if err := snapshot(fmt.Sprintf("after restart at step %d", step)); err != nil {
				return nil, err
			}
			if len(r.T.Order) > 1 {
				restartsAfterStore++
			}
		}
		// service + HTTP views of the header just touched and of one older header
		if n := r.T.Nodes[r.Hashes[idx]]; n != nil {
			if err := checkServiceViews(r, n); err != nil {
				return nil, fmt.Errorf("after step %d: %w", step, err)
			}
		}
		if older := r.T.Order[step%len(r.T.Order)]; older != nil {
			if err := checkServiceViews(r, older); err != nil {
				return nil, fmt.Errorf("after step %d: %w", step, err)
			}
		}
	}
	// genesis: independent hash of the stored genesis fields
	g := hist.Genesis()
	if g.H.Hash() != g.Hash {
		return nil, fmt.Errorf("genesis row hash %s is not the SHA-256d of its fields", model.HashStr(g.Hash))
	}
	for _, n := range r.T.Order {
		if err := checkServiceViews(r, n); err != nil {
			return nil, fmt.Errorf("final: %w", err)
		}
	}
	for _, s := range p.Hist.Specs {
		if isBoundary32(uint32(s.Version)) || isBoundary32(s.Nonce) || isBoundary32(s.Time) || isBoundary32(s.Bits) {
			boundary++
		}
	}
	cl := histClasses(p.Hist, r.T, dups, 0, 0)
	cl["with_boundary_field"] = b2i(boundary > 0)
	cl["with_restart_after_store"] = b2i(restartsAfterStore > 0)
	nt := boundary > 0 && (r.T.Reorgs > 0 || restartsAfterStore > 0)
	return &stats.Case{Sig: stats.Sig(planSig(p.Hist), fmt.Sprint(p.Restarts), fieldSig(p.Hist)), Nontrivial: nt, Classes: cl, Sample: p}, nil
}

func fieldSig(p *hist.Plan) uint64 {
	parts := []any{}
	for _, s := range p.Specs {
		parts = append(parts, s.Version, s.Nonce, s.Time, s.Merkle)
	}
	return stats.Sig(parts...)
}

func isBoundary32(v uint32) bool {
	switch v {
	case 0, 1, 0x7fffffff, 0x80000000, 0xffffffff, 0x7ffffffe, 0xfffffffe:
		return true
	}
	return false
}

func b2i(b bool) int64 {
	if b {
		return 1
	}
	return 0
}

var propC03 = Prop[*C03Plan]{
	ID:   "C03",
	Name: "TestC03",
	Gen: func(t *rapid.T) *C03Plan {
		o := hist.GenOpts{MaxSpecs: quickThorough(16, 40), ExtremeFields: true, NoForbidden: true}
		h := hist.Gen(t, o)
		p := &C03Plan{Hist: h}
		nr := rapid.IntRange(0, 2).Draw(t, "nrestarts")
		for i := 0; i < nr; i++ {
			p.Restarts = append(p.Restarts, rapid.IntRange(0, len(h.Delivery)-1).Draw(t, "restart"))
		}
		return p
	},
	Run: runC03,
}

func TestC03(t *testing.T) {
	if propC03.replayEnv(t) {
		return
	}
	propC03.Check(t)
}

func TestC03Regress(t *testing.T) { propC03.Regress(t) }
