package checks

import (
	"fmt"
	"os"
	"path/filepath"
	"reflect"
	"sort"
	"strings"
	"testing"
	"time"

	"github.com/bitcoin-sv/block-headers-service/cli"
	"github.com/bitcoin-sv/block-headers-service/config"
	"github.com/bitcoin-sv/block-headers-service/verifharness/stats"
	"github.com/spf13/viper"
	"pgregory.net/rapid"
)

type cfgKey struct {
	Path string // dotted mapstructure path
	Kind string // string | bool | int | uint16 | duration | enum:<name>
}

// tagName is the key name of a mapstructure tag (options such as ",omitempty" or ",squash" are not part of it).
func tagName(tag string) string {
	if i := strings.IndexByte(tag, ','); i >= 0 {
		return tag[:i]
	}
	return tag
}

// cfgKeys enumerates the leaf keys of config.AppConfig by reflection.
func cfgKeys() []cfgKey {
	var out []cfgKey
	var walk func(t reflect.Type, prefix string)
	walk = func(t reflect.Type, prefix string) {
		for t.Kind() == reflect.Ptr {
			t = t.Elem()
		}
		for i := 0; i < t.NumField(); i++ {
			f := t.Field(i)
			tag := tagName(f.Tag.Get("mapstructure"))
			if tag == "" || tag == "-" {
				continue
			}
			path := tag
			if prefix != "" {
				path = prefix + "." + tag
			}
			ft := f.Type
			for ft.Kind() == reflect.Ptr {
				ft = ft.Elem()
			}
			switch {
			case ft == reflect.TypeOf(time.Duration(0)):
				out = append(out, cfgKey{path, "duration"})
			case ft.Kind() == reflect.Struct:
				walk(ft, path)
			case ft.Kind() == reflect.String && ft.Name() != "string":
				out = append(out, cfgKey{path, "enum:" + ft.Name()})
			case ft.Kind() == reflect.String:
				out = append(out, cfgKey{path, "string"})
			case ft.Kind() == reflect.Bool:
				out = append(out, cfgKey{path, "bool"})
			case ft.Kind() == reflect.Uint16:
				out = append(out, cfgKey{path, "uint16"})
			case ft.Kind() == reflect.Int:
				out = append(out, cfgKey{path, "int"})
			default:
				out = append(out, cfgKey{path, "unsupported:" + ft.String()})
			}
		}
	}
	walk(reflect.TypeOf(config.AppConfig{}), "")
	sort.Slice(out, func(i, j int) bool { return out[i].Path < out[j].Path })
	return out
}

// getLeaf reads the effective value of a key as a string.
func getLeaf(cfg *config.AppConfig, path string) string {
	v := reflect.ValueOf(cfg)
	for _, part := range strings.Split(path, ".") {
		for v.Kind() == reflect.Ptr {
			v = v.Elem()
		}
		t := v.Type()
		found := false
		for i := 0; i < t.NumField(); i++ {
			if tagName(t.Field(i).Tag.Get("mapstructure")) == part {
				v = v.Field(i)
				found = true
				break
			}
		}
		if !found {
			return "<missing>"
		}
	}
	for v.Kind() == reflect.Ptr {
		v = v.Elem()
	}
	if d, ok := v.Interface().(time.Duration); ok {
		return d.String()
	}
	return fmt.Sprint(v.Interface())
}

// valueFor returns the i-th candidate value of a kind in its textual (env/yaml) form and normalised form.
func valueFor(k cfgKey, i int) (text string, norm string) {
	pick := func(l []string) string { return l[((i%len(l))+len(l))%len(l)] }
	switch {
	case k.Path == "logging.level":
		v := pick([]string{"trace", "info", "warn", "error", "fatal", "debug"})
		return v, v
	case k.Kind == "string":
		v := pick([]string{"value-a", "tok_$2b$10$abcdefgh", "with space", "${HOME}/x.db", "colon:inside", "ünïcode", "./some/path.db", "x", "UPPER_lower-1", "pa$$w0rd$PATH"})
		return v, v
	case k.Kind == "bool":
		v := pick([]string{"true", "false"})
		return v, v
	case k.Kind == "int":
		v := pick([]string{"7", "0", "-3", "123456", "1"})
		return v, v
	case k.Kind == "uint16":
		v := pick([]string{"1", "65535", "8333", "0"})
		return v, v
	case k.Kind == "duration":
		v := pick([]string{"90s", "1h30m", "2s", "45m"})
		d, _ := time.ParseDuration(v)
		return v, d.String()
	case strings.HasPrefix(k.Kind, "enum:DbEngine"):
		v := pick([]string{"postgres", "sqlite"})
		return v, v
	case strings.HasPrefix(k.Kind, "enum:NetworkType"):
		v := pick([]string{"testnet", "regtest", "simnet", "mainnet"})
		return v, v
	}
	return "x", "x"
}

// Assignment sets one key from the environment and/or the file.
type Assignment struct {
	Key   int  `json:"key"` // index into cfgKeys()
	Env   bool `json:"env"`
	File  bool `json:"file"`
	EnvV  int  `json:"envV"`
	FileV int  `json:"fileV"`
}

// C20Plan is a set of assignments (at most one per key).
type C20Plan struct {
	Assign []Assignment `json:"assign"`
	// Select: how the configuration file is chosen: 0 = -C flag, 1 = BHS_CONFIG_FILE, 2 = not at all (the file is
	// ./config.yaml, the documented default location)
	Select int `json:"select,omitempty"`
	// Decoy (Select 0/1): a ./config.yaml with other values for the same keys lies in the working directory and must be
	// ignored, because another file was selected
	Decoy bool `json:"decoy,omitempty"`
}

func yamlQuote(s string) string {
	return "\"" + strings.ReplaceAll(strings.ReplaceAll(s, "\\", "\\\\"), "\"", "\\\"") + "\""
}

func buildYAML(vals map[string]string, kinds map[string]string) string {
	// nested maps from dotted paths
	type node map[string]any
	root := node{}
	for p, v := range vals {
		parts := strings.Split(p, ".")
		cur := root
		for _, part := range parts[:len(parts)-1] {
			n, ok := cur[part].(node)
			if !ok {
				n = node{}
				cur[part] = n
			}
			cur = n
		}
		cur[parts[len(parts)-1]] = v + "\x00" + kinds[p]
	}
	var sb strings.Builder
	var emit func(n node, indent string)
	emit = func(n node, indent string) {
		ks := make([]string, 0, len(n))
		for k := range n {
			ks = append(ks, k)
		}
		sort.Strings(ks)
		for _, k := range ks {
			switch v := n[k].(type) {
			case node:
				sb.WriteString(indent + k + ":\n")
				emit(v, indent+"  ")
			case string:
				parts := strings.SplitN(v, "\x00", 2)
				val, kind := parts[0], parts[1]
				if kind == "bool" || kind == "int" || kind == "uint16" {
					sb.WriteString(indent + k + ": " + val + "\n")
				} else {
					sb.WriteString(indent + k + ": " + yamlQuote(val) + "\n")
				}
			}
		}
	}
	emit(root, "")
	return sb.String()
}

var c20Dir string

func envName(path string) string {
	return "BHS_" + strings.ToUpper(strings.ReplaceAll(path, ".", "_"))
}

// loadConfig runs the real start-up sequence: viper.Reset, SetDefaults, LoadFlags(-C file), Load.
func loadConfig(file string) (*config.AppConfig, error) {
	viper.Reset()
	nop := nopLogger()
	if err := config.SetDefaults("verif", nop); err != nil {
		return nil, err
	}
	def := config.GetDefaultAppConfig()
	saved := os.Args
	defer func() { os.Args = saved }()
	if file != "" {
		os.Args = []string{"bhs", "-C", file}
	} else {
		os.Args = []string{"bhs"}
	}
	if err := cli.LoadFlags(def); err != nil {
		return nil, err
	}
	cfg, _, err := config.Load(def)
	return cfg, err
}

func runC20(p *C20Plan) (*stats.Case, error) {
	if c20Dir == "" {
		c20Dir = scratchDir("c20")
		_ = os.Chdir(c20Dir)
	}
	keys := cfgKeys()
	defaults := config.GetDefaultAppConfig()
	fileVals, kinds := map[string]string{}, map[string]string{}
	decoyVals := map[string]string{}
	expect := map[string]string{}
	var envSet []string
	used := map[int]bool{}
	both := 0
	for _, a := range p.Assign {
		ki := ((a.Key % len(keys)) + len(keys)) % len(keys)
		if used[ki] || (!a.Env && !a.File) {
			continue
		}
		used[ki] = true
		k := keys[ki]
		if strings.HasPrefix(k.Kind, "unsupported") {
			return nil, fmt.Errorf("configuration key %s has a type the check does not know (%s) - extend valueFor", k.Path, k.Kind)
		}
		kinds[k.Path] = k.Kind
		if a.File {
			text, norm := valueFor(k, a.FileV)
			fileVals[k.Path] = text
			expect[k.Path] = norm
			decoyVals[k.Path], _ = valueFor(k, a.FileV+1)
		}
		if a.Env {
			text, norm := valueFor(k, a.EnvV)
			_ = os.Setenv(envName(k.Path), text)
			envSet = append(envSet, envName(k.Path))
			expect[k.Path] = norm
			if a.File && fileVals[k.Path] != text {
				both++
			}
		}
	}
	defer func() {
		for _, e := range envSet {
			_ = os.Unsetenv(e)
		}
	}()
	file := ""
	defaultLocation := filepath.Join(c20Dir, "config.yaml")
	_ = os.Remove(defaultLocation)
	defer os.Remove(defaultLocation)
	if len(fileVals) > 0 {
		file = filepath.Join(c20Dir, "cfg.yaml")
		if p.Select == 2 {
			file = defaultLocation
		}
		if err := os.WriteFile(file, []byte(buildYAML(fileVals, kinds)), 0o644); err != nil {
			return nil, fmt.Errorf("infra: %w", err)
		}
		if p.Decoy && p.Select != 2 {
			if err := os.WriteFile(defaultLocation, []byte(buildYAML(decoyVals, kinds)), 0o644); err != nil {
				return nil, fmt.Errorf("infra: %w", err)
			}
		}
		switch p.Select {
		case 1:
			_ = os.Setenv("BHS_CONFIG_FILE", file)
			envSet = append(envSet, "BHS_CONFIG_FILE")
			file = ""
		case 2:
			file = ""
		}
	}
	cfg, err := loadConfig(file)
	if err != nil {
		return nil, fmt.Errorf("config.Load failed: %v (file values %v, env %v)", err, fileVals, envSet)
	}
	for _, k := range keys {
		want, ok := expect[k.Path]
		if !ok {
			want = getLeaf(defaults, k.Path)
			if k.Path == "p2p.user_agent_version" {
				want = getLeaf(cfg, k.Path) // default is the build version, set by SetDefaults
			}
		}
		if got := getLeaf(cfg, k.Path); got != want {
			src := "default"
			if _, ok := expect[k.Path]; ok {
				src = "override"
			}
			return nil, fmt.Errorf("key %s: effective value %q, expected %q (%s; env %v, file %v)", k.Path, got, want, src, envSet, fileVals)
		}
	}
	cl := map[string]int64{"select_flag": b2i(p.Select == 0), "select_env": b2i(p.Select == 1), "select_default_location": b2i(p.Select == 2), "with_decoy_config_yaml": b2i(p.Decoy && p.Select != 2 && len(fileVals) > 0), "loads": 1, "keys_set": int64(len(used)), "with_env_and_file_differing": b2i(both > 0)}
	return &stats.Case{Sig: stats.Sig(fmt.Sprint(p.Assign, p.Select, p.Decoy)), Nontrivial: both > 0, Classes: cl, Sample: p}, nil
}

var propC20 = Prop[*C20Plan]{
	ID:   "C20",
	Name: "TestC20Multi",
	Gen: func(t *rapid.T) *C20Plan {
		p := &C20Plan{Select: rapid.SampledFrom([]int{0, 0, 1, 2}).Draw(t, "select"), Decoy: rapid.Bool().Draw(t, "decoy")}
		n := rapid.IntRange(2, 7).Draw(t, "n")
		for i := 0; i < n; i++ {
			src := rapid.IntRange(1, 3).Draw(t, "src")
			p.Assign = append(p.Assign, Assignment{Key: rapid.IntRange(0, 200).Draw(t, "key"), Env: src&1 != 0, File: src&2 != 0,
				EnvV: rapid.IntRange(0, 9).Draw(t, "ev"), FileV: rapid.IntRange(0, 9).Draw(t, "fv")})
		}
		return p
	},
	Run: runC20,
}

func TestC20Multi(t *testing.T) {
	if propC20.replayEnv(t) {
		return
	}
	propC20.Check(t)
}

func TestC20Regress(t *testing.T) { propC20.Regress(t) }

// TestC20Table: every key x every subset of {env, file} x every candidate value pair, one key at a time (exhaustive),
// plus the validation table for database sections.
func TestC20Table(t *testing.T) {
	stats.Setup("C20", "TestC20Table")
	keys := cfgKeys()
	prop := propC20
	prop.Name = "TestC20Table"
	for ki, k := range keys {
		for src := 0; src < 4; src++ {
			nv := 4
			for ev := 0; ev < nv; ev++ {
				for fv := 0; fv < nv; fv++ {
					if src&1 == 0 && ev > 0 || src&2 == 0 && fv > 0 {
						continue
					}
					p := &C20Plan{Assign: []Assignment{{Key: ki, Env: src&1 != 0, File: src&2 != 0, EnvV: ev, FileV: fv + 1}}}
					if !prop.CheckOne(t, p, fmt.Sprintf("%s-%d-%d-%d", strings.ReplaceAll(k.Path, ".", "_"), src, ev, fv)) {
						return
					}
				}
			}
		}
	}
	stats.Count("leaf_keys", int64(len(keys)))
	// validation of database sections
	type vcase struct {
		name  string
		mut   func(c *config.AppConfig)
		valid bool
	}
	existing := filepath.Join(c20Dir, "exists.csv.gz")
	_ = os.WriteFile(existing, []byte("x"), 0o644)
	cases := []vcase{
		{"defaults", func(c *config.AppConfig) {}, true},
		{"engine mysql", func(c *config.AppConfig) { c.Db.Engine = "mysql" }, false},
		{"engine empty", func(c *config.AppConfig) { c.Db.Engine = "" }, false},
		{"engine SQLITE (case)", func(c *config.AppConfig) { c.Db.Engine = "SQLITE" }, false},
		{"sqlite empty path", func(c *config.AppConfig) { c.Db.SQLite.FilePath = "" }, false},
		{"postgres complete", func(c *config.AppConfig) { c.Db.Engine = config.DBPostgreSQL }, true},
		{"postgres no host", func(c *config.AppConfig) { c.Db.Engine = config.DBPostgreSQL; c.Db.Postgres.Host = "" }, false},
		{"postgres port 0", func(c *config.AppConfig) { c.Db.Engine = config.DBPostgreSQL; c.Db.Postgres.Port = 0 }, false},
		{"postgres no user", func(c *config.AppConfig) { c.Db.Engine = config.DBPostgreSQL; c.Db.Postgres.User = "" }, false},
		{"postgres no db name", func(c *config.AppConfig) { c.Db.Engine = config.DBPostgreSQL; c.Db.Postgres.DbName = "" }, false},
		{"postgres with empty sqlite path", func(c *config.AppConfig) { c.Db.Engine = config.DBPostgreSQL; c.Db.SQLite.FilePath = "" }, true},
		{"prepared empty file path", func(c *config.AppConfig) { c.Db.PreparedDb = true; c.Db.PreparedDbFilePath = "" }, false},
		{"prepared missing file", func(c *config.AppConfig) {
			c.Db.PreparedDb = true
			c.Db.PreparedDbFilePath = filepath.Join(c20Dir, "nope.gz")
		}, false},
		{"prepared existing file", func(c *config.AppConfig) { c.Db.PreparedDb = true; c.Db.PreparedDbFilePath = existing }, true},
		{"prepared off, missing file", func(c *config.AppConfig) { c.Db.PreparedDbFilePath = filepath.Join(c20Dir, "nope.gz") }, true},
		{"nil db section", func(c *config.AppConfig) { c.Db = nil }, false},
	}
	// every database rule combined with every engine: engine x prepared-database variant x one engine-specific defect
	for _, eng := range []config.DbEngine{config.DBSQLite, config.DBPostgreSQL} {
		eng := eng
		for _, pv := range []struct {
			name  string
			mut   func(c *config.AppConfig)
			valid bool
		}{
			{"prepared off", func(c *config.AppConfig) {}, true},
			{"prepared with empty path", func(c *config.AppConfig) { c.Db.PreparedDb = true; c.Db.PreparedDbFilePath = "" }, false},
			{"prepared with missing file", func(c *config.AppConfig) {
				c.Db.PreparedDb = true
				c.Db.PreparedDbFilePath = filepath.Join(c20Dir, "nope.gz")
			}, false},
			{"prepared with existing file", func(c *config.AppConfig) { c.Db.PreparedDb = true; c.Db.PreparedDbFilePath = existing }, true},
		} {
			pv := pv
			cases = append(cases, vcase{fmt.Sprintf("engine %s, %s", eng, pv.name), func(c *config.AppConfig) { c.Db.Engine = eng; pv.mut(c) }, pv.valid})
			cases = append(cases, vcase{fmt.Sprintf("engine %s broken, %s", eng, pv.name), func(c *config.AppConfig) {
				c.Db.Engine = eng
				pv.mut(c)
				if eng == config.DBSQLite {
					c.Db.SQLite.FilePath = ""
				} else {
					c.Db.Postgres.User = ""
				}
			}, false})
		}
	}
	for _, vc := range cases {
		c := config.GetDefaultAppConfig()
		vc.mut(c)
		var err error
		func() {
			defer func() {
				if r := recover(); r != nil {
					err = fmt.Errorf("panic: %v", r)
				}
			}()
			err = c.Validate()
		}()
		if (err == nil) != vc.valid {
			msg := fmt.Sprintf("Validate() of configuration %q returned %v, expected valid=%v", vc.name, err, vc.valid)
			path := fmt.Sprintf("%s/viol-TestC20Table-validate-%x.json", violDir("C20"), stats.Sig(vc.name))
			writeReplay(path, "C20", "TestC20Table", map[string]string{"validation_case": vc.name}, msg)
			stats.AddViolation(stats.Violation{Property: "C20", Replay: path, Message: msg})
			t.Errorf("%s", msg)
		}
		stats.Record(&stats.Case{Sig: stats.Sig("validate", vc.name), Nontrivial: !vc.valid, Classes: map[string]int64{"validation_cases": 1}, Sample: map[string]any{"validation_case": vc.name, "valid": vc.valid}})
	}
	stats.SetExhaustive()
}
