// Package model is the reference model of the header tree. It shares no code
// with the service: hashing, compact-bits decoding, work and the chain
// labelling are written independently and the labelling is recomputed from
// scratch after every submission.
package model

import (
	"crypto/sha256"
	"encoding/binary"
	"encoding/hex"
	"math/big"
	"sort"
)

// Header is the 80-byte header content.
type Header struct {
	Version   int32
	Prev      [32]byte
	Merkle    [32]byte
	Timestamp uint32
	Bits      uint32
	Nonce     uint32
}

// Serialize renders the 80-byte little-endian wire form.
func (h Header) Serialize() []byte {
	b := make([]byte, 80)
	binary.LittleEndian.PutUint32(b[0:], uint32(h.Version))
	copy(b[4:], h.Prev[:])
	copy(b[36:], h.Merkle[:])
	binary.LittleEndian.PutUint32(b[68:], h.Timestamp)
	binary.LittleEndian.PutUint32(b[72:], h.Bits)
	binary.LittleEndian.PutUint32(b[76:], h.Nonce)
	return b
}

// Hash is the double SHA-256 of the serialisation (internal byte order).
func (h Header) Hash() [32]byte {
	a := sha256.Sum256(h.Serialize())
	return sha256.Sum256(a[:])
}

// HashStr renders a hash the way the service prints it (byte-reversed hex).
func HashStr(h [32]byte) string {
	var r [32]byte
	for i := range h {
		r[i] = h[31-i]
	}
	return hex.EncodeToString(r[:])
}

// ParseHashStr is the inverse of HashStr.
func ParseHashStr(s string) ([32]byte, bool) {
	var out [32]byte
	b, err := hex.DecodeString(s)
	if err != nil || len(b) != 32 {
		return out, false
	}
	for i := range b {
		out[i] = b[31-i]
	}
	return out, true
}

var (
	two256 = new(big.Int).Exp(big.NewInt(2), big.NewInt(256), nil)
	b256   = big.NewInt(256)
)

// Target decodes compact bits: sign x mantissa x 256^(exp-3), truncating for exp<3.
func Target(bits uint32) *big.Int {
	mant := big.NewInt(int64(bits % (1 << 23)))
	neg := (bits/(1<<23))%2 == 1
	exp := int64(bits / (1 << 24))
	var t *big.Int
	if exp >= 3 {
		t = new(big.Int).Mul(mant, new(big.Int).Exp(b256, big.NewInt(exp-3), nil))
	} else {
		t = new(big.Int).Quo(mant, new(big.Int).Exp(b256, big.NewInt(3-exp), nil))
	}
	if neg {
		t.Neg(t)
	}
	return t
}

// WorkValid decides whether w = floor(2^256/(t+1)) (0 for t<=0) by multiplication.
func WorkValid(bits uint32, w *big.Int) bool {
	t := Target(bits)
	if t.Sign() <= 0 {
		return w.Sign() == 0
	}
	if w.Sign() < 0 {
		return false
	}
	d := new(big.Int).Add(t, big.NewInt(1))
	lo := new(big.Int).Mul(w, d)
	hi := new(big.Int).Mul(new(big.Int).Add(w, big.NewInt(1)), d)
	return lo.Cmp(two256) <= 0 && hi.Cmp(two256) > 0
}

// Work computes floor(2^256/(t+1)) by binary search on the validity predicate's
// monotone side (no division), 0 for non-positive targets.
func Work(bits uint32) *big.Int {
	t := Target(bits)
	if t.Sign() <= 0 {
		return big.NewInt(0)
	}
	d := new(big.Int).Add(t, big.NewInt(1))
	lo, hi := big.NewInt(0), new(big.Int).Set(two256) // lo*d <= 2^256 ; (hi+1)*d > 2^256
	for lo.Cmp(hi) < 0 {
		mid := new(big.Int).Add(lo, hi)
		mid.Add(mid, big.NewInt(1))
		mid.Rsh(mid, 1)
		if new(big.Int).Mul(mid, d).Cmp(two256) <= 0 {
			lo = mid
		} else {
			hi = mid.Sub(mid, big.NewInt(1))
		}
	}
	return lo
}

// Labels.
const (
	Longest = "LONGEST_CHAIN"
	Stale   = "STALE"
	Orphan  = "ORPHAN"
)

// Node is one stored header.
type Node struct {
	H        Header
	Hash     [32]byte
	HashStr  string
	Parent   *Node // nil for genesis and for headers whose parent was unknown
	Height   int32
	Work     *big.Int
	CumWork  *big.Int
	Seq      int
	IsOrphan bool
	Label    string
	Children []*Node
}

// Outcome of a submission.
type Outcome int

const (
	Stored Outcome = iota
	Duplicate
	Forbidden
)

func (o Outcome) String() string { return [...]string{"stored", "duplicate", "forbidden"}[o] }

// Tree is the reference header tree.
type Tree struct {
	Nodes     map[[32]byte]*Node
	ByPrev    map[[32]byte][]*Node // hash-link children (includes orphans that arrived before their parent)
	Order     []*Node              // insertion order
	Genesis   *Node
	Best      *Node
	Forbidden map[[32]byte]bool
	Reorgs    int // number of times Best moved to a node that is not a child of the previous Best
	MaxReorg  int // deepest reorg (number of blocks leaving the longest chain)
	Ties      int // submissions whose cumWork equalled the best's (connected)
	// LenientZeroWork: when true the tip also moves to a zero-work child of the best (see DESIGN: tie rule).
}

// GenesisFields of a stored genesis row (hash is taken from the store, fields from chain params).
type GenesisFields struct {
	Hash [32]byte
	H    Header
	Work *big.Int
}

// NewTree creates a tree holding only genesis.
func NewTree(g GenesisFields) *Tree {
	n := &Node{H: g.H, Hash: g.Hash, HashStr: HashStr(g.Hash), Height: 0, Work: g.Work, CumWork: new(big.Int).Set(g.Work), Seq: 0, Label: Longest}
	t := &Tree{Nodes: map[[32]byte]*Node{g.Hash: n}, ByPrev: map[[32]byte][]*Node{}, Order: []*Node{n}, Genesis: n, Best: n, Forbidden: map[[32]byte]bool{}}
	return t
}

// Submit applies the statement of C01/C03 literally.
func (t *Tree) Submit(h Header) (Outcome, *Node) {
	hash := h.Hash()
	if n, ok := t.Nodes[hash]; ok {
		return Duplicate, n
	}
	if t.Forbidden[hash] {
		return Forbidden, nil
	}
	n := &Node{H: h, Hash: hash, HashStr: HashStr(hash), Work: Work(h.Bits), Seq: len(t.Order)}
	p, known := t.Nodes[h.Prev]
	switch {
	case !known:
		n.IsOrphan = true
		n.Height = 1
		n.CumWork = new(big.Int).Set(n.Work)
	default:
		n.Parent = p
		n.Height = p.Height + 1
		n.CumWork = new(big.Int).Add(p.CumWork, n.Work)
		n.IsOrphan = p.IsOrphan
		p.Children = append(p.Children, n)
	}
	t.Nodes[hash] = n
	t.ByPrev[h.Prev] = append(t.ByPrev[h.Prev], n)
	t.Order = append(t.Order, n)
	if !n.IsOrphan && n.CumWork.Cmp(t.Best.CumWork) == 0 {
		t.Ties++
	}
	t.relabel()
	return Stored, n
}

// relabel recomputes best and labels from scratch.
func (t *Tree) relabel() {
	prevBest := t.Best
	var best *Node
	for _, n := range t.Order {
		if n.IsOrphan {
			continue
		}
		if best == nil || n.CumWork.Cmp(best.CumWork) > 0 {
			best = n // Order is by Seq, so the earliest among equals wins
		}
	}
	onPath := map[*Node]bool{}
	for n := best; n != nil; n = n.Parent {
		onPath[n] = true
	}
	for _, n := range t.Order {
		switch {
		case n.IsOrphan:
			n.Label = Orphan
		case onPath[n]:
			n.Label = Longest
		default:
			n.Label = Stale
		}
	}
	if best != prevBest && best.Parent != prevBest {
		// a reorganisation: count blocks of the old path that left
		depth := 0
		for n := prevBest; n != nil && !onPath[n]; n = n.Parent {
			depth++
		}
		if depth > 0 {
			t.Reorgs++
			if depth > t.MaxReorg {
				t.MaxReorg = depth
			}
		}
	}
	t.Best = best
}

// LongestPath returns genesis..best.
func (t *Tree) LongestPath() []*Node {
	var p []*Node
	for n := t.Best; n != nil; n = n.Parent {
		p = append(p, n)
	}
	for i, j := 0, len(p)-1; i < j; i, j = i+1, j-1 {
		p[i], p[j] = p[j], p[i]
	}
	return p
}

// IsAncestor reports whether a is a (non-strict) ancestor of n.
func IsAncestor(a, n *Node) bool {
	for x := n; x != nil; x = x.Parent {
		if x == a {
			return true
		}
	}
	return false
}

// Path returns the parent-linked path from low up to high (both inclusive), or nil.
func Path(low, high *Node) []*Node {
	var p []*Node
	for x := high; x != nil; x = x.Parent {
		p = append(p, x)
		if x == low {
			for i, j := 0, len(p)-1; i < j; i, j = i+1, j-1 {
				p[i], p[j] = p[j], p[i]
			}
			return p
		}
	}
	return nil
}

// Tips = the longest tip plus every leaf of a stale or orphan branch.
// Leaves are taken over hash links: a non-longest node is a leaf when no
// stored non-longest header names it as previous block.
func (t *Tree) Tips() map[string]*Node {
	out := map[string]*Node{t.Best.HashStr: t.Best}
	for _, n := range t.Order {
		if n.Label == Longest {
			continue
		}
		leaf := true
		for _, c := range t.ByPrev[n.Hash] {
			if c.Label != Longest {
				leaf = false
			}
		}
		if leaf {
			out[n.HashStr] = n
		}
	}
	return out
}

// ByLabel lists nodes with a label in insertion order.
func (t *Tree) ByLabel(label string) []*Node {
	var out []*Node
	for _, n := range t.Order {
		if n.Label == label {
			out = append(out, n)
		}
	}
	return out
}

// SortedHashes returns all hash strings sorted.
func (t *Tree) SortedHashes() []string {
	out := make([]string, 0, len(t.Order))
	for _, n := range t.Order {
		out = append(out, n.HashStr)
	}
	sort.Strings(out)
	return out
}

// CommonAncestor per C04: the highest header strictly below the lowest given
// height that is an ancestor of all given headers; nil if none.
func CommonAncestor(ns []*Node) *Node {
	if len(ns) == 0 {
		return nil
	}
	minH := ns[0].Height
	for _, n := range ns {
		if n.Height < minH {
			minH = n.Height
		}
	}
	// walk candidate down from the first node
	for c := ns[0]; c != nil; c = c.Parent {
		if c.Height >= minH {
			continue
		}
		ok := true
		for _, n := range ns {
			if !IsAncestor(c, n) {
				ok = false
				break
			}
		}
		if ok {
			return c
		}
	}
	return nil
}
