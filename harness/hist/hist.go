// Package hist holds the history plan (header specs + delivery list), its
// rapid generator, and the rig that executes a plan against the real stack and
// the reference model side by side.
package hist

import (
	"crypto/sha256"
	"encoding/binary"
	"fmt"
	"math/big"
	"time"

	"github.com/bitcoin-sv/block-headers-service/domains"
	"github.com/bitcoin-sv/block-headers-service/internal/chaincfg"
	"github.com/bitcoin-sv/block-headers-service/internal/chaincfg/chainhash"
	"github.com/bitcoin-sv/block-headers-service/verifharness/model"
	"github.com/bitcoin-sv/block-headers-service/verifharness/stack"
	"pgregory.net/rapid"
)

// Spec describes one header of a plan.
type Spec struct {
	// Parent: -1 genesis; i>=0 spec i (always < own index); <= -2 unknown parent number -Parent-2.
	Parent  int    `json:"parent"`
	Bits    uint32 `json:"bits"`
	Version int32  `json:"version"`
	Nonce   uint32 `json:"nonce"`
	Time    uint32 `json:"time"`
	// Merkle seed: merkle root = SHA256("mr"||seed). Equal seeds give equal roots.
	Merkle uint64 `json:"merkle"`
}

// Plan is a history: specs and the order (with repetitions) in which they are delivered.
type Plan struct {
	Specs     []Spec `json:"specs"`
	Delivery  []int  `json:"delivery"`
	Forbidden []int  `json:"forbidden,omitempty"` // spec indices whose hashes are on the forbidden list
}

// Palette of difficulty bits (weighted by repetition): mostly the default work so that
// forks, ties and overtakes by one heavier block are common; zero-work and giant-work
// encodings are present but do not dominate.
var Palette = []uint32{
	0x1d00ffff, 0x1d00ffff, 0x1d00ffff, 0x1d00ffff, 0x1d00ffff, 0x1d00ffff, 0x1d00ffff, 0x1d00ffff, // work 4295032833
	0x1c00ffff, 0x1c00ffff, 0x1c00ffff, // 256x work
	0x1d00fffe, 0x1d00fffe, 0x1d00fffe, // a hair more work
	0x1d01fffe, // about half the work
	0x207fffff, // work 2
	0x1d000000, // zero mantissa: work 0
	0x1d80ffff, // sign bit: negative target, work 0
	0x0100ffff, // exponent 1: target 0, work 0
	0x2200ffff, // target >= 2^256: work 0
	0x0200ffff, // exponent < 3 (target 0xff): giant work 2^248
	0x03000001, // target 1: work 2^255
	0x1b000002, 0x1b000002, // target 2^193: work 2^63-1 - two of them on one branch carry the cumulated work across 2^64
	0x1b000004, // work 2^62-1
	0x21000001, // exponent 33, one-byte mantissa: target 2^240, work 65535
	0x2100ffff, // exponent 33, two-byte mantissa: target just below 2^256, work 1
	0x22000001, // exponent 34, one-byte mantissa: target 2^248, work 255
}

// MerkleOf derives a merkle root from a seed.
func MerkleOf(seed uint64) [32]byte {
	var b [10]byte
	copy(b[:], "mr")
	binary.LittleEndian.PutUint64(b[2:], seed)
	return sha256.Sum256(b[:])
}

// UnknownParent derives the k-th unknown parent hash.
func UnknownParent(k int) [32]byte {
	return sha256.Sum256([]byte(fmt.Sprintf("unknown-parent-%d", k)))
}

// Genesis returns the model's view of the stored genesis row.
func Genesis() model.GenesisFields {
	g := chaincfg.MainNetParams.GenesisBlock.Header
	h := model.Header{Version: 1, Merkle: [32]byte(g.MerkleRoot), Timestamp: uint32(g.Timestamp.Unix()), Bits: g.Bits, Nonce: g.Nonce}
	return model.GenesisFields{Hash: [32]byte(g.BlockHash()), H: h, Work: model.Work(g.Bits)}
}

// Build materialises the headers of a plan (index-aligned with Specs).
func (p *Plan) Build() []model.Header {
	g := Genesis()
	hs := make([]model.Header, len(p.Specs))
	hashes := make([][32]byte, len(p.Specs))
	for i, s := range p.Specs {
		var prev [32]byte
		switch {
		case s.Parent == -1:
			prev = g.Hash
		case s.Parent >= 0 && s.Parent < i:
			prev = hashes[s.Parent]
		case s.Parent >= i:
			prev = g.Hash // malformed plan (hand-edited replay): treat as genesis child
		default:
			prev = UnknownParent(-s.Parent - 2)
		}
		hs[i] = model.Header{Version: s.Version, Prev: prev, Merkle: MerkleOf(s.Merkle), Timestamp: s.Time, Bits: s.Bits, Nonce: s.Nonce}
		hashes[i] = hs[i].Hash()
	}
	return hs
}

// ToSource converts a model header to the service's input type.
func ToSource(h model.Header) domains.BlockHeaderSource {
	return domains.BlockHeaderSource{
		Version:    h.Version,
		PrevBlock:  chainhash.Hash(h.Prev),
		MerkleRoot: chainhash.Hash(h.Merkle),
		Timestamp:  time.Unix(int64(h.Timestamp), 0),
		Bits:       h.Bits,
		Nonce:      h.Nonce,
	}
}

// GenOpts tune the generator.
type GenOpts struct {
	MaxSpecs       int
	MinSpecs       int
	DistinctMerkle bool // pairwise distinct merkle roots (C08)
	NoForbidden    bool
	NoUnknown      bool    // never use unknown parents / inversions (connected trees only)
	NoZeroWork     bool    // palette restricted to positive-work encodings
	ExtremeFields  bool    // push version/nonce/time to boundaries more often
	LongShare      float64 // share of long linear + late fork plans (thorough)
	LongMin        int
	LongMax        int
	RecentTimes    bool // timestamps near "now" (P2P rigs)
	NoDuplicates   bool
	InOrder        bool // deliver strictly in index order (no inversions)
}

var boundaryU32 = []uint32{0, 1, 0x7fffffff, 0x80000000, 0xffffffff, 0x7ffffffe, 0xfffffffe}
var boundaryI32 = []int32{0, 1, -1, -2147483648, 2147483647, 2, 0x20000000}

func drawU32(t *rapid.T, label string, extreme bool) uint32 {
	w := 8
	if extreme {
		w = 2
	}
	if rapid.IntRange(0, w).Draw(t, label+"k") == 0 {
		return rapid.SampledFrom(boundaryU32).Draw(t, label+"b")
	}
	return rapid.Uint32().Draw(t, label)
}

func drawI32(t *rapid.T, label string, extreme bool) int32 {
	w := 8
	if extreme {
		w = 2
	}
	if rapid.IntRange(0, w).Draw(t, label+"k") == 0 {
		return rapid.SampledFrom(boundaryI32).Draw(t, label+"b")
	}
	return rapid.Int32().Draw(t, label)
}

// DrawBits draws difficulty bits from the palette (90%), uniformly (5%) or from the exponent/mantissa-size lattice (5%).
func DrawBits(t *rapid.T, o GenOpts) uint32 {
	if o.NoZeroWork {
		return rapid.SampledFrom([]uint32{0x1d00ffff, 0x1d00ffff, 0x1d00ffff, 0x1c00ffff, 0x1d00fffe, 0x207fffff}).Draw(t, "bits")
	}
	switch rapid.IntRange(0, 19).Draw(t, "bitsk") {
	case 0:
		return rapid.Uint32().Draw(t, "bitsr")
	case 1:
		// lattice: any exponent around the interesting sizes with a mantissa of one, two or three bytes
		exp := rapid.SampledFrom([]uint32{0, 1, 2, 3, 4, 26, 27, 28, 29, 30, 31, 32, 33, 34, 35, 36, 255}).Draw(t, "bitse")
		man := rapid.Uint32Range(1, 0x7fffff).Draw(t, "bitsm") >> rapid.SampledFrom([]uint{0, 0, 8, 16}).Draw(t, "bitss")
		return exp<<24 | man
	}
	return rapid.SampledFrom(Palette).Draw(t, "bits")
}

// Gen draws a plan.
func Gen(t *rapid.T, o GenOpts) *Plan {
	if o.MaxSpecs == 0 {
		o.MaxSpecs = 24
	}
	if o.MinSpecs == 0 {
		o.MinSpecs = 1
	}
	n := 0
	long := false
	if o.LongShare >= 1 || (o.LongShare > 0 && rapid.IntRange(0, 9999).Draw(t, "longk") < int(o.LongShare*10000)) {
		long = true
		n = rapid.IntRange(o.LongMin, o.LongMax).Draw(t, "nlong")
	} else {
		// roughly geometric size
		n = o.MinSpecs
		max := o.MaxSpecs
		a := rapid.IntRange(o.MinSpecs, max).Draw(t, "n1")
		b := rapid.IntRange(o.MinSpecs, max).Draw(t, "n2")
		n = a
		if b < a && rapid.IntRange(0, 2).Draw(t, "nk") > 0 {
			n = b
		}
	}
	p := &Plan{}
	// generator-side tree (by spec index; -1 = genesis)
	type gnode struct {
		orphan   bool
		children int
		parent   int
		mainline bool
	}
	nodes := make([]gnode, 0, n)
	unknown := 0
	isLeaf := func(i int) bool { return nodes[i].children == 0 }
	lastMain := -1
	for i := 0; i < n; i++ {
		var parent int
		forceHeavy := false
		kind := rapid.IntRange(0, 99).Draw(t, "pk")
		if long {
			// long linear chain with occasional fork starts; late fork near the end
			switch {
			case i > n-12 && kind < 45 && i > 3:
				kind = 60 // fork from random node
			default:
				kind = 0
			}
		}
		switch {
		case i == 0:
			if !o.NoUnknown && kind >= 96 {
				parent = -2 - unknown
				unknown++
			} else {
				parent = -1
			}
		case kind < 50: // extend a leaf
			var leaves []int
			for j := range nodes {
				if isLeaf(j) {
					leaves = append(leaves, j)
				}
			}
			if long {
				parent = lastMain
			} else {
				parent = leaves[rapid.IntRange(0, len(leaves)-1).Draw(t, "leaf")]
			}
		case kind < 76: // fork from any node (incl. genesis)
			parent = rapid.IntRange(-1, i-1).Draw(t, "fork")
		case kind < 80: // child of an orphan
			var orph []int
			for j := range nodes {
				if nodes[j].orphan {
					orph = append(orph, j)
				}
			}
			if len(orph) == 0 || o.NoUnknown {
				parent = rapid.IntRange(-1, i-1).Draw(t, "fork2")
			} else {
				parent = orph[rapid.IntRange(0, len(orph)-1).Draw(t, "orph")]
			}
		case kind < 84 && !o.NoUnknown: // unknown parent
			if unknown > 0 && rapid.IntRange(0, 3).Draw(t, "unkre") == 0 {
				parent = -2 - rapid.IntRange(0, unknown-1).Draw(t, "unkidx")
			} else {
				parent = -2 - unknown
				unknown++
			}
		default: // sibling of a block on the first-born chain (competes with a longest-chain block)
			// walk down from the deepest node a few steps
			deep := 0
			for j := range nodes {
				if !nodes[j].orphan && depthOf(nodes, j, func(k int) int { return nodes[k].parent }) > depthOf(nodes, deep, func(k int) int { return nodes[k].parent }) {
					deep = j
				}
			}
			steps := rapid.IntRange(1, 4).Draw(t, "sib")
			cur := deep
			for s := 0; s < steps && cur >= 0; s++ {
				cur = nodes[cur].parent
			}
			if cur < -1 {
				cur = -1
			}
			parent = cur
			forceHeavy = rapid.IntRange(0, 9).Draw(t, "heavy") < 7
		}
		gn := gnode{parent: parent}
		if parent <= -2 {
			gn.orphan = true
		} else if parent >= 0 {
			gn.orphan = nodes[parent].orphan
			nodes[parent].children++
		}
		if long && parent == lastMain {
			lastMain = i
		}
		nodes = append(nodes, gn)
		s := Spec{Parent: parent}
		if long {
			s.Bits = 0x1d00ffff
			if parent != lastMain && i != lastMain {
				s.Bits = rapid.SampledFrom([]uint32{0x1d00ffff, 0x1c00ffff, 0x1d00fffe}).Draw(t, "lbits")
			}
		} else if forceHeavy {
			s.Bits = 0x1c00ffff
		} else {
			s.Bits = DrawBits(t, o)
		}
		s.Version = drawI32(t, "ver", o.ExtremeFields)
		s.Nonce = drawU32(t, "nonce", o.ExtremeFields)
		if o.RecentTimes {
			s.Time = uint32(time.Now().Unix()) - uint32(rapid.IntRange(0, 3000).Draw(t, "rt"))
		} else {
			s.Time = drawU32(t, "time", o.ExtremeFields)
		}
		if o.DistinctMerkle {
			s.Merkle = uint64(i + 1)
		} else if i > 0 && rapid.IntRange(0, 7).Draw(t, "mrep") == 0 {
			s.Merkle = p.Specs[rapid.IntRange(0, i-1).Draw(t, "mrepi")].Merkle
		} else {
			s.Merkle = rapid.Uint64().Draw(t, "mr")
		}
		p.Specs = append(p.Specs, s)
	}
	// delivery order
	order := make([]int, n)
	for i := range order {
		order[i] = i
	}
	if !o.InOrder && !o.NoUnknown && !long {
		// a few inversions: swap random pairs
		inv := 0
		switch k := rapid.IntRange(0, 9).Draw(t, "ninv"); {
		case k < 6:
		case k < 9:
			inv = 1
		default:
			inv = rapid.IntRange(2, n+1).Draw(t, "ninv2")
		}
		for k := 0; k < inv && n > 1; k++ {
			a := rapid.IntRange(0, n-1).Draw(t, "inva")
			b := rapid.IntRange(0, n-1).Draw(t, "invb")
			order[a], order[b] = order[b], order[a]
		}
	}
	p.Delivery = order
	if !o.NoDuplicates {
		nd := rapid.IntRange(0, 3).Draw(t, "ndup")
		if long {
			nd = rapid.IntRange(0, 2).Draw(t, "ndupl")
		}
		for k := 0; k < nd; k++ {
			pos := rapid.IntRange(0, len(p.Delivery)).Draw(t, "duppos")
			idx := rapid.IntRange(0, n-1).Draw(t, "dupidx")
			p.Delivery = append(p.Delivery[:pos], append([]int{idx}, p.Delivery[pos:]...)...)
		}
	}
	if !o.NoForbidden && !long && rapid.IntRange(0, 5).Draw(t, "forbk") == 0 {
		nf := rapid.IntRange(1, 2).Draw(t, "nforb")
		for k := 0; k < nf; k++ {
			p.Forbidden = append(p.Forbidden, rapid.IntRange(0, n-1).Draw(t, "forb"))
		}
	}
	return p
}

func depthOf[T any](nodes []T, i int, parent func(int) int) int {
	d := 0
	for i >= 0 {
		i = parent(i)
		d++
	}
	return d
}

// ---------------------------------------------------------------------------

// Rig runs the real stack and the model side by side.
type Rig struct {
	S       *stack.Stack
	T       *model.Tree
	Headers []model.Header
	Hashes  [][32]byte
	forb    []*chainhash.Hash
	saved   []*chainhash.Hash
	// Stored[i] is true once spec i is stored according to the model.
	Acked map[[32]byte]bool
}

// NewRig creates a stack in dir and the model; installs forbidden hashes.
func NewRig(dir string, p *Plan, o stack.Options) (*Rig, error) {
	o.Dir = dir
	s, err := stack.New(o)
	if err != nil {
		return nil, err
	}
	r := &Rig{S: s, T: model.NewTree(Genesis()), Acked: map[[32]byte]bool{}}
	if p != nil {
		r.Headers = p.Build()
		r.Hashes = make([][32]byte, len(r.Headers))
		for i, h := range r.Headers {
			r.Hashes[i] = h.Hash()
		}
		r.saved = chaincfg.MainNetParams.HeadersToIgnore
		if len(p.Forbidden) > 0 {
			list := append([]*chainhash.Hash{}, r.saved...)
			for _, f := range p.Forbidden {
				if f >= 0 && f < len(r.Hashes) {
					h := chainhash.Hash(r.Hashes[f])
					list = append(list, &h)
					r.T.Forbidden[r.Hashes[f]] = true
				}
			}
			chaincfg.MainNetParams.HeadersToIgnore = list
		}
	}
	return r, nil
}

// Close restores globals and closes the stack.
func (r *Rig) Close() {
	if r.saved != nil {
		chaincfg.MainNetParams.HeadersToIgnore = r.saved
	}
	r.S.Close()
}

// AddResult is the classified result of Chains.Add.
type AddResult struct {
	Class  string // stored | duplicate | forbidden | error
	Err    error
	Header *domains.BlockHeader
}

// Add submits a header to the real service and classifies the answer.
func (r *Rig) Add(h model.Header) AddResult {
	bh, err := r.S.Services.Chains.Add(ToSource(h))
	switch {
	case err == nil && bh != nil:
		return AddResult{Class: "stored", Header: bh}
	case err == nil:
		return AddResult{Class: "error", Err: fmt.Errorf("nil header and nil error")}
	case err.Error() == "HeaderAlreadyExists":
		return AddResult{Class: "duplicate", Err: err}
	case err.Error() == "BlockRejected":
		return AddResult{Class: "forbidden", Err: err, Header: bh}
	default:
		return AddResult{Class: "error", Err: err}
	}
}

// CompareTable checks that the headers table equals the model (hash set, labels, derived fields).
func (r *Rig) CompareTable(checkFields bool) error {
	rows, err := r.S.Headers()
	if err != nil {
		return fmt.Errorf("reading headers table: %w", err)
	}
	if len(rows) != len(r.T.Order) {
		return fmt.Errorf("headers table has %d rows, model has %d", len(rows), len(r.T.Order))
	}
	for _, row := range rows {
		hh, ok := model.ParseHashStr(row.Hash)
		if !ok {
			return fmt.Errorf("row with unparsable hash %q", row.Hash)
		}
		n := r.T.Nodes[hh]
		if n == nil {
			return fmt.Errorf("stored header %s is not in the model", row.Hash)
		}
		if row.State != n.Label {
			return fmt.Errorf("header %s (height %d, seq %d): stored state %s, model %s (model best %s h=%d)", row.Hash, n.Height, n.Seq, row.State, n.Label, r.T.Best.HashStr, r.T.Best.Height)
		}
		if checkFields {
			if err := CheckRow(row, n); err != nil {
				return err
			}
		}
	}
	return nil
}

// CheckRow compares every immutable column of a row with the model node.
func CheckRow(row stack.Row, n *model.Node) error {
	bad := func(f string, got, want any) error {
		return fmt.Errorf("header %s: column %s = %v, expected %v", row.Hash, f, got, want)
	}
	if row.Height != int64(n.Height) {
		return bad("height", row.Height, n.Height)
	}
	if row.Version != int64(n.H.Version) {
		return bad("version", row.Version, n.H.Version)
	}
	if row.Merkle != model.HashStr(n.H.Merkle) {
		return bad("merkleroot", row.Merkle, model.HashStr(n.H.Merkle))
	}
	if row.Prev != model.HashStr(n.H.Prev) {
		return bad("previous_block", row.Prev, model.HashStr(n.H.Prev))
	}
	if row.Nonce != int64(n.H.Nonce) {
		return bad("nonce", row.Nonce, n.H.Nonce)
	}
	if row.Bits != fmt.Sprint(n.H.Bits) {
		return bad("bits", row.Bits, n.H.Bits)
	}
	if row.TimestampUnix != int64(n.H.Timestamp) {
		return bad("timestamp", row.TimestampUnix, n.H.Timestamp)
	}
	w, ok := new(big.Int).SetString(row.Chainwork, 10)
	if !ok || !model.WorkValid(n.H.Bits, w) {
		return bad("chainwork", row.Chainwork, n.Work)
	}
	if row.CumWork != n.CumWork.String() {
		return bad("cumulated_work", row.CumWork, n.CumWork)
	}
	return nil
}

// CheckTip compares Headers.GetTip with the model's best.
func (r *Rig) CheckTip() error {
	tip := r.S.Services.Headers.GetTip()
	if tip == nil {
		return fmt.Errorf("GetTip returned nil")
	}
	if tip.Hash.String() != r.T.Best.HashStr {
		return fmt.Errorf("GetTip = %s (height %d), model best = %s (height %d, cumWork %s)", tip.Hash.String(), tip.Height, r.T.Best.HashStr, r.T.Best.Height, r.T.Best.CumWork)
	}
	return nil
}

// Deliver submits spec i to both sides and compares the outcome class.
func (r *Rig) Deliver(i int) (model.Outcome, AddResult, error) {
	h := r.Headers[i]
	res := r.Add(h)
	out, _ := r.T.Submit(h)
	if res.Class == "error" {
		return out, res, fmt.Errorf("delivery of spec %d (%s): Add failed: %v (model: %s)", i, model.HashStr(r.Hashes[i]), res.Err, out)
	}
	if res.Class != out.String() {
		return out, res, fmt.Errorf("delivery of spec %d (%s): Add answered %q, model says %q", i, model.HashStr(r.Hashes[i]), res.Class, out)
	}
	return out, res, nil
}
