#!/usr/bin/env python3
"""Regenerates MANIFEST.json from the driver's property table (single source of truth)."""
import importlib.machinery, importlib.util, json, os, subprocess
here = os.path.dirname(os.path.abspath(__file__))
loader = importlib.machinery.SourceFileLoader("check", os.path.join(here, "check"))
spec = importlib.util.spec_from_loader("check", loader)
check = importlib.util.module_from_spec(spec); loader.exec_module(check)

ALL = ["C%02d" % i for i in range(1, 21)]
hooks_commits = []
try:
    out = subprocess.run(["git", "-C", "/repo", "log", "--format=%H %s"], capture_output=True, text=True).stdout
    hooks_commits = [l.split()[0] for l in out.splitlines() if " verif-hook:" in l or l.split(" ", 1)[1].startswith("verif hook")]
except Exception:
    pass

checks = []
for pid in ALL:
    if pid not in check.PROPS:
        continue
    p = check.PROPS[pid]
    checks.append({
        "property_id": pid,
        "quick_cmd": "./check %s quick" % pid,
        "thorough_cmd": "./check %s thorough" % pid,
        "evidence_file": "/verif/evidence/%s.json" % pid,
        "replay_cmd_template": "./check %s quick --replay {path}" % pid,
        "engine": "rapid-harness",
        "level_claimed": {"category": p["level"], "text": p.get("level_text", ""), "design_ref": p.get("design_ref", "DESIGN.md section 4 " + pid)},
        "level_note": p.get("level_note", "; ".join(p.get("assumptions", []))),
        "technique": p.get("technique", "property-based testing (rapid) against a reference model"),
    })
na = [{"property_id": pid, "reason": check.NOT_APPLICABLE.get(pid, "check not built yet in this session; see DESIGN.md section 4 for the planned generator and oracle")}
      for pid in ALL if pid not in check.PROPS]
m = {
    "version": 1,
    "setup_cmd": "./check --setup",
    "hooks": {
        "guard": "verif",
        "enable": "go test -c -tags verif (harness module with replace => /repo)",
        "baseline_off_cmd": "cd /repo && go test -p 1 -vet=off -count=1 ./...",
        "source_commits": hooks_commits,
        "add_only": True,
    },
    "engines": [{"name": "rapid-harness", "path": "/verif/harness", "serves_properties": [c["property_id"] for c in checks],
                 "kind_free_text": "Go test binary (pgregory.net/rapid v1.3.0 + native fuzz corpora) driving the real SQLite/gin/P2P stack of /repo against reference models; sharded by ./check"}],
    "checks": checks,
    "not_applicable": na,
    "notes": "Driver: ./check <ID> <quick|thorough> [--replay FILE]; known findings in known_findings.json; replays in replays/<ID>/.",
}
json.dump(m, open(os.path.join(here, "MANIFEST.json"), "w"), indent=1)
print("checks:", len(checks), "not_applicable:", len(na))
